#!/bin/sh
# validates MANIFEST.json and every evidence file against the schemas
python3-vt - <<'PY'
import json,jsonschema,glob,sys
jsonschema.validate(json.load(open('/verif/MANIFEST.json')), json.load(open('/root/.vp/MANIFEST.schema.json')))
es=json.load(open('/root/.vp/EVIDENCE.schema.json'))
bad=0
for f in sorted(glob.glob('/verif/evidence/C*.json')):
    try:
        jsonschema.validate(json.load(open(f)), es)
    except Exception as e:
        bad+=1; print('INVALID',f,str(e)[:300])
print('manifest valid; evidence files checked:', len(glob.glob('/verif/evidence/C*.json')), 'invalid:', bad)
sys.exit(1 if bad else 0)
PY
