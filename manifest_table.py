NOTES = ("Static analysis only (go/packages + go/ssa, x/tools v0.29.0): nothing in /repo is built or executed by the checks. "
         "Two genuine defects were repaired by fix: commits in /repo (see known_findings.txt and DESIGN.md section 6). "
         "seeded/ holds 126 independently produced and confirmed seeded defects plus the two fix reverts (seeded/CATCH.md: which check reports which); neutral/ holds 48 behaviour-preserving refactors that must stay silent; DESIGN.md section 9 records both and the false alarms corrected.")
ALL = ["C%02d" % i for i in range(1, 21)]
ENGINES = [
 {"name": "edcheck", "path": "/verif/cmd/edcheck", "serves_properties": ALL,
  "kind_free_text": "repository-specific static analyser over go/ssa: path/term engine (guards G, operand shapes S, hash transcripts H), finite predicate abstraction (F), batch structure via per-iteration region paths and affine indices (B), provenance/effects (M), secret taint (T), assembly lint (Z), configuration matrix (K), constant/table audits (A), unrolled-stage uniformity (U), abstract interpretation with intervals x bit provenance x value numbers (O bit-origin, E finite evaluation, R magnitudes)"},
]
NA = {}
TB = "Trusted: go/packages, go/types, go/ssa (x/tools v0.29.0); the specification tables in /verif/cmd/edcheck (transcribed from the property statement and README). A rewrite into a shape the analyser does not model is reported as unrecognised (fail closed), which is a deliberate limit, not a counter-example."
def fill(chk):
    chk("C01", "other",
        "Decides the composition: the decision structure of single verification (all control-flow paths of the verifier core, its no-panic wrapper and both entry points) equals the documented guard set on every world of a finite partition (length classes x top-byte classes x truth of the opaque predicates), no other rejection reason exists, and the accepted value is the cofactored equation over the documented operands with the challenge hashed over the bytes as supplied; S<L is proved exact by finite predicate abstraction; the scalar layer (mod-L reduction chains, (de)serialisation, recoding digit extraction) is checked structurally on both limb layouts.",
        TB + " Not decided: that the primitives (decode, scalar mult, field/scalar arithmetic) compute what their names say.",
        "path enumeration + guard truth tables + def-use term reconstruction on go/ssa", "DESIGN.md section 5 C01")
    chk("C02", "other",
        "Decides the RFC 8032 composition of signing and key derivation as exact uninterpreted terms (both hash transcripts, clamp as byte truth tables, S = Contract(Add(Mul(h,a),r)), R = Pack([r]B)), the option dispatch of the crypto.Signer entry point for all three ways of passing options, that the entropy argument has zero uses and that the signing cone is pure (no global writes, no entropy, only modelled externals); scalar layer structural rules on both layouts.",
        TB + " Not decided: byte-exactness of the arithmetic primitives.",
        "def-use term reconstruction + hash-transcript typestate + guard truth tables + effects analysis on go/ssa", "DESIGN.md section 5 C02")
    chk("C03", "other",
        'Decides sibling agreement between signer and all verifiers (same challenge transcript and dom2 rule, single and batch), that S is the Contract of the reducing scalar Add without post-processing, that no verifier (single, batch fast path, fallback, remainder) has a rejection reason outside the documented list, that the one magnitude test is exactly S<L, and that on every build configuration of the tier signer and verifier use the expected member of each sibling-file group, the same constants and the same (independently recomputed) tables.',
        TB + " Not decided: honest R and A are never small order (group theory) and the arithmetic.",
        'term/transcript comparison across sibling functions + guard truth tables + batch region analysis + configuration matrix and table audit', 'DESIGN.md section 5 C03')
    chk("C04", "proof",
        "Exhaustive abstract evaluation of the scalar-admissibility predicate over a finite predicate abstraction of all 2^256 scalars (concrete top byte x order of each 64-bit word relative to L): every class evaluates to a definite verdict and it equals S<L; the order constant as written equals L; every verifier mode (single default/ZIP-215, batch fast path, fallback, remainder) gates on exactly this predicate and the S bytes flow nowhere else but the scalar expansion.",
        TB + " Also trusted: soundness of the partition (byte 31 is the top byte of little-endian word 3), math/big.",
        "finite predicate abstraction evaluated exhaustively on go/ssa + constant audit + guard truth tables", "DESIGN.md section 5 C04, section 4 F")
    chk("C05", "other",
        "Decides that the ZIP-215 flag influences only the two small-order rejections (every read of the option field is enumerated), identically in the single verifier and the batch fast path and passed unchanged through the plumbing and the fallback; with the flag set the accepted set is the ZIP-215 list and the truth table dominates the default one pointwise; the decoder has exactly one rejection; the scalar layer (S<L test, expansion, both recodings' digit extraction) is bit-exact up to bit 255 on both layouts, which matters here because S ranges over all of [0,L).",
        TB + " Not decided: the primitives.",
        'guard truth tables with the flag as an atom + referrer enumeration + batch region analysis + bit-provenance abstract interpretation', 'DESIGN.md section 5 C05')
    chk("C06", "other",
        "Decides the structural half of batch = single: entry-index discipline i+offset at every access in every loop (including chunks with offset>0 that tests never run), slot map, phase order and dominance by the fast-path flag, fail-then-fallback discipline, per-entry guard agreement with the single verifier, fresh randomisers per chunk, clean hash object at every iteration boundary, fallback/remainder delegating to the single verifier with one and the same index, and the documented returns.",
        TB + " Not decided: the 2^-120 probabilistic soundness and the multi-scalar arithmetic.",
        "per-iteration region path enumeration with affine index normal forms + dominator queries on go/ssa", "DESIGN.md section 5 C06, section 4 B")
    chk("C07", "other",
        "Decides the context-length partition {0},{1..255},{256..} and the hash-selector x digest-length table exactly, the dom2 encoding (RFC prefix, flag byte, lossless length byte, context) and its placement before R||A||M at every hash site iff the variant is not pure, the flag constants, and the refusal surfaces of Sign / VerifyWithOptions / VerifyBatch.",
        TB + " Not decided: cross-acceptance impossibility itself (needs collision resistance of SHA-512).",
        "interval-partition evaluation of guards + hash-transcript typestate on go/ssa", "DESIGN.md section 5 C07")
    chk("C08", "other",
        'Decides the necessary conditions a backend-confined divergence would have to break, on every configuration of the matrix: expected sibling-file selection, equal exported API, layout constants, constants and both tables equal to independently recomputed values on both layouts, assembly selector lint, finite evaluation of the table selector (32x17 cases) and of the conditional swap, unrolled-stage uniformity, bit-exact (de)serialisers, the three Bos-Coster predicates decided on all inputs, magnitude analysis of both arithmetic packages, and exact polynomial identities for every leaf field operation plus the exponent chains, on both limb layouts.',
        TB + " Not decided: observational equality of outputs on all inputs (numeric).",
        'configuration-matrix type-checking + constant audits + abstract interpretation (intervals, bit provenance, polynomial value numbers) + sibling-agreement rules', 'DESIGN.md section 5 C08')
    chk("C09", "other",
        "Decides the shape of the small-order predicate: undecodable => small, exactly three doublings, identity test on the contracted X, Y, Z (X=0 and Y=Z), used at exactly the documented call sites and always gated by !zip215 (single and batch).",
        TB + " Not decided: the doubling formula's algebra and the group theory of the torsion subgroup.",
        "def-use term reconstruction + guard truth tables", "DESIGN.md section 5 C09")
    chk("C10", "other",
        "Decides the structure of the lenient decoder (exactly one rejection, sign from bit 255 compared with the parity of the contracted x, y=Expand(p), z=1, t=xy), that UnpackVartime flips bit 255 on a private copy, that Pack writes Contract(y/z) with the parity of Contract(x/z) folded into bit 255 (byte truth tables), that the key conversion fails exactly when decoding fails, and (bit provenance) that field Expand ignores bit 255, on every configuration of the tier.",
        TB + " Not decided: that the exponentiation chain computes the square root and that Contract is canonical for every representation (numeric).",
        "path enumeration + def-use term reconstruction + byte truth tables + bit-provenance abstract interpretation", "DESIGN.md section 5 C10")
    chk("C11", "other",
        "Decides the error/no-output contract of X25519 on all length classes, that the fast path is selected by slice identity only, the clamp and the raw (unreduced) scalar expansion, the u=(Y+Z)/(Z-Y) operand shape, the delegation of the generic path, that the radix-16 recoding consumes all 256 scalar bits and the table selector's complete finite domain.",
        TB + " Not decided: agreement of the Edwards fast path with the Montgomery ladder on all scalars (numeric).",
        "guard truth tables over length classes + def-use term reconstruction + abstract interpretation", "DESIGN.md section 5 C11")
    chk("C12", "other",
        "Decides that the private conversion is clamp(SHA-512(seed)[:32]) in a fresh slice, and that the public conversion fails exactly when decoding fails and otherwise returns Contract((1+y)*Recip(1-y)).",
        TB + " Not decided: commutation with key generation (numeric).",
        "def-use term reconstruction + hash-transcript typestate", "DESIGN.md section 5 C12")
    chk("C13", "other",
        "Decides that the documented panics are matched by guard in the decision structures of Sign / Verify / VerifyWithOptions / NewKeyFromSeed, that the batch verifier checks every entry's lengths before use and delegates to the no-panic helper, that X25519 returns errors for wrong lengths before touching the data, that (effects analysis, every configuration) no exported function writes memory reachable from a caller-supplied slice and results are fresh, that every non-constant index site reachable from the API is bounded by its loop counter or belongs to a role family listed with its data invariant, that slice-bound obligations collected on all paths are met by dominating length facts, and that the leading-limb scan of the multi-scalar routine is reached only for a non-zero scalar.",
        TB + " Not decided: index sites whose safety rests on data invariants of the arithmetic (printed as assumptions in the evidence).",
        'guard truth tables + provenance/effects analysis with summaries + index-site enumeration + dominator queries', 'DESIGN.md section 5 C13')
    chk("C14", "other",
        "Decides that GenerateKey passes the reader to exactly one io.ReadFull on a fresh 32-byte buffer with error => (nil,nil,err), that the private key is seed||public, that Public/Seed return fresh copies of the right halves and that Equal is same dynamic type plus whole-slice equality.",
        TB,
        "path enumeration + def-use term reconstruction + provenance analysis", "DESIGN.md section 5 C14")
    chk("C15", "proof",
        "On every configuration: no function outside package initialisers writes memory reachable from a package-level variable (one dead test switch frozen with its reason), exported functions write only locals and declared out-parameters, an entropy reader is always the caller's own or crypto/rand.Reader (never package-level state), no goroutine/channel/defer/sync construct and no unmodelled external exists. Hence concurrent calls on read-only shared inputs have no conflicting accesses and every result is a function of the arguments (plus the caller's own reader).",
        "Trusted: Go memory model; externals table (sha512.New returns a fresh object, crypto/rand.Reader is concurrency-safe); the flow-insensitive provenance analysis is an over-approximation and unknown provenance fails closed.",
        'mod/ref effects analysis with bottom-up summaries over go/ssa', 'DESIGN.md section 5 C15')
    chk("C16", "other",
        'Decides that both precomputed tables are exactly the documented multiples of B (recomputed independently, both layouts), the digit-to-table schedule of the fixed-base loop (every radix-16 digit i is looked up at position i/2, added once and doubled 4*(i mod 2) times afterwards; t*d exactly for position-0 entries that go through the niels addition) and of the double-base loop (window and table sizes, table of odd multiples, neutral start, start at the highest non-zero digit, per digit one doubling then +-table[|d|/2] with the sign bit of the digit), the table selector on its complete 32x17 domain (reference and assembly variants), uniformity of the unrolled conditional-move, exact digit extraction of both recodings, that no scratch table is shared between calls, and that the field operations used around the loops are exact modulo p and free of overflow under every magnitude the group law produces.',
        TB + " Not decided: that the signed recodings represent their input and that the group-law formulas are the Edwards addition, hence that the schedule yields [s]B and [s1]P+[s2]B for all scalars.",
        'constant-table audit with independent big-integer curve arithmetic + finite abstract evaluation + bit provenance + polynomial value numbers', 'DESIGN.md section 5 C16')
    chk("C17", "other",
        "Decides the set-up of the batch equation (slot/term correspondence over affine iteration spaces, one randomiser in its three places, base point in slot 0, count 2n+1, summation before slot reuse, per-chunk re-initialisation), that the fallback is entered iff the fast-path flag is false, that the heap is seeded with an odd number of scalars covering all full-size ones for every chunk size, that the three predicates steering the Bos-Coster loop (zero, one, at most 128 bits) are exact on all inputs on both layouts, that the final ladder's limb scan is guarded by the zero test, and the uniformity of the variable-time compare/subtract chains.",
        TB + " Not decided: exactness of the Bos-Coster heap arithmetic.",
        'per-iteration region path enumeration with affine index normal forms + finite abstract evaluation', 'DESIGN.md section 5 C17')
    chk("C18", "other",
        'Decides value exactness of every leaf field operation on both limb layouts: Add/Sub/Neg and their AfterBasic/Reduce forms, Mul, Square, SquareTimes (one step, with induction over its own magnitude class) and Copy satisfy the polynomial identity sum(out_i*2^w_i) = spec(a,b) modulo 2^255-19, coefficient by coefficient, for every operand-magnitude class the group law produces (dropped high parts are tracked as carry symbols, so a lost or masked-off carry leaves a residue); Recip and PowTwo252m3 are addition chains ending at p-2 and 2^252-3; no overflow, borrow, lossy narrowing or lost carry under those magnitudes; bias constants are 2p/4p; carry chains are uniform; Expand ignores bit 255; SwapConditional is exactly a swap or a no-op.',
        TB + " Not decided: Contract's canonicalisation argument (that its output is the unique representative below p for every input representation) is a relational range argument; one seeded defect of that kind (seeded/C18-m1) is not reported by any check.",
        'abstract interpretation over go/ssa: intervals x bit provenance x value numbers x exact polynomial value numbers with carry symbols; coefficient-wise identity check; sibling-agreement rules', 'DESIGN.md section 5 C18, section 1.1')
    chk("C19", "other",
        'Decides m = L and mu = floor(2^512/L) on both layouts, uniformity and per-limb constants of the conditional-subtraction and Barrett borrow chains, that Expand skips the reduction only below 32 bytes and hands Barrett exactly r1 = x mod 2^264 and q1 = x >> 248, bit-exactness of ExpandRaw/Expand/Contract and of the digit extraction of both recodings, absence of overflow / lost carries / dropped non-zero values in Add, Mul, barrettReduce, and the three variable-time predicates (zero, one, at most 128 bits) on all inputs.',
        TB + " Not decided: that Barrett's estimate plus two conditional subtractions yields the canonical residue (Mul(x,y) = xy mod L is not decided); that the signed recodings represent their input.",
        'interval x bit-provenance abstract interpretation + sibling-agreement rules + constant audit', 'DESIGN.md section 5 C19')
    chk("C20", "proof",
        "For every entry point with its secret inputs marked, on every configuration of the tier, no tainted value reaches a branch condition, an index or slice bound, a variable-time callee, a non-constant division or a variable shift; the assembly selector is branch-free with constant addressing. Zero sinks => identical control-flow and address traces for executions that differ only in secrets (non-interference of the taint lattice).",
        "Trusted: externals marked constant-time (crypto/sha512, crypto/subtle, math/bits.Mul64/Add64, x/crypto curve25519), declassification of the one-bit result of subtle.ConstantTimeCompare, the Go compiler not introducing branches.",
        "context-sensitive secret-taint analysis over provenance roots + assembly linter", "DESIGN.md section 5 C20")
