NOTES = ("Static analysis only (go/packages + go/ssa, x/tools v0.29.0): nothing in /repo is built or executed by the checks. "
         "Two genuine defects were repaired by fix: commits in /repo (see known_findings.txt and DESIGN.md section 6).")
ENGINES = [
 {"name": "edcheck", "path": "/verif/cmd/edcheck", "serves_properties": ["C04"], "kind_free_text": "repository-specific static analyser over go/ssa: finite predicate abstraction (F), constant audits (A)"},
]
NA = {}
def fill(chk):
    chk("C04", "proof",
        "Exhaustive abstract evaluation of the scalar-admissibility predicate over a finite predicate abstraction of all 2^256 scalars (concrete top byte x order of each 64-bit word relative to L): every class evaluates to a definite verdict and it equals S<L; the order constant as written equals L.",
        "Trusted: soundness of the partition (byte 31 is the top byte of little-endian word 3), go/ssa, math/big. A rewrite of the predicate in a shape the evaluator does not model is reported as unrecognised (fail closed).",
        "finite predicate abstraction evaluated exhaustively on go/ssa + constant audit", "DESIGN.md section 5 C04, section 4 F")
