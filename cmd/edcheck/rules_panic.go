package main

import (
	"fmt"
	"go/constant"
	"go/token"
	"go/types"
	"sort"
	"strings"

	"golang.org/x/tools/go/ssa"

	"verif/internal/absint"
	"verif/internal/load"
	"verif/internal/pt"
	"verif/internal/rep"
	"verif/internal/roles"
	"verif/internal/ssau"
)

// indexSite describes a non-constant index into an array or slice.
type indexSite struct {
	fn   *ssa.Function
	in   ssa.Instruction
	base string
	idx  string
	how  string // how it was discharged ("" = not)
}

func arrayLen(t types.Type) (int64, bool) {
	if p, ok := t.Underlying().(*types.Pointer); ok {
		t = p.Elem()
	}
	if a, ok := t.Underlying().(*types.Array); ok {
		return a.Len(), true
	}
	return 0, false
}

// counterBound: v is a loop counter phi(c0, v+step) guarded by a header comparison against a constant or len(array).
// counterBound bounds an index expression: a loop counter, or an affine combination of loop counters and constants.
func counterBound(v ssa.Value) (lo, hi int64, ok bool) {
	return affineBound(v, 0)
}

func affineBound(v ssa.Value, depth int) (lo, hi int64, ok bool) {
	if depth > 6 {
		return 0, 0, false
	}
	switch x := v.(type) {
	case *ssa.Const:
		if x.Value == nil {
			return 0, 0, false
		}
		return x.Int64(), x.Int64(), true
	case *ssa.Convert:
		return affineBound(x.X, depth+1)
	case *ssa.Parameter:
		// an integer parameter of an unexported function: the union over all its call sites
		if arg, bound := paramBinding[x]; bound {
			return affineBound(arg, depth+1)
		}
		fn := x.Parent()
		if fn == nil || token.IsExported(fn.Name()) || fn.Signature.Recv() != nil || callSiteIndex == nil {
			return 0, 0, false
		}
		idx := -1
		for i, p := range fn.Params {
			if p == x {
				idx = i
			}
		}
		sites := callSiteIndex[fn]
		if idx < 0 || len(sites) == 0 {
			return 0, 0, false
		}
		first := true
		for _, c := range sites {
			if idx >= len(c.Common().Args) {
				return 0, 0, false
			}
			l, h, ok := affineBound(c.Common().Args[idx], depth+1)
			if !ok {
				return 0, 0, false
			}
			if first || l < lo {
				lo = l
			}
			if first || h > hi {
				hi = h
			}
			first = false
		}
		return lo, hi, true
	case *ssa.Call:
		// n := copy(dst, src) is at most the shorter of the two lengths
		if bn, ok := x.Common().Value.(*ssa.Builtin); ok && bn.Name() == "copy" && len(x.Common().Args) == 2 {
			best := int64(-1)
			for _, a := range x.Common().Args {
				var n int64 = -1
				switch y := a.(type) {
				case *ssa.Const:
					if y.Value != nil && y.Value.Kind() == constant.String {
						n = int64(len(constant.StringVal(y.Value)))
					}
				case *ssa.Slice:
					if pt, ok := y.X.Type().Underlying().(*types.Pointer); ok {
						if at, ok := pt.Elem().Underlying().(*types.Array); ok {
							n = at.Len()
						}
					}
				}
				if n >= 0 && (best < 0 || n < best) {
					best = n
				}
			}
			if best >= 0 {
				return 0, best, true
			}
		}
		return 0, 0, false
	case *ssa.Phi:
		if l, h, ok := phiCounterBound(x); ok {
			return l, h, true
		}
		// a counter that starts at a guarded value and steps down to a constant: for i := n; i >= c; i--
		if l, h, ok := downCounterBound(x); ok {
			return l, h, true
		}
		return 0, 0, false
	case *ssa.BinOp:
		// the range-loop index phi+1 is bounded through its own comparison
		if n, isRange := rangeIndex(x); isRange {
			return 0, n - 1, true
		}
		al, ah, ok1 := affineBound(x.X, depth+1)
		bl, bh, ok2 := affineBound(x.Y, depth+1)
		if !ok1 || !ok2 {
			return 0, 0, false
		}
		const big = int64(1) << 40
		if al < -big || ah > big || bl < -big || bh > big {
			return 0, 0, false
		}
		switch x.Op {
		case token.ADD:
			return al + bl, ah + bh, true
		case token.SUB:
			return al - bh, ah - bl, true
		case token.MUL:
			c := []int64{al * bl, al * bh, ah * bl, ah * bh}
			lo, hi = c[0], c[0]
			for _, y := range c[1:] {
				if y < lo {
					lo = y
				}
				if y > hi {
					hi = y
				}
			}
			return lo, hi, true
		case token.SHL:
			if bl == bh && bl >= 0 && bl < 20 && al >= 0 {
				return al << uint(bl), ah << uint(bl), true
			}
		case token.QUO:
			if bl == bh && bl > 0 && al >= 0 {
				return al / bl, ah / bl, true
			}
		case token.REM:
			if bl == bh && bl > 0 && al >= 0 {
				return 0, bl - 1, true
			}
		}
	}
	return 0, 0, false
}

func phiCounterBound(v ssa.Value) (lo, hi int64, ok bool) {
	ph, isPhi := v.(*ssa.Phi)
	if !isPhi || len(ph.Edges) != 2 {
		return 0, 0, false
	}
	var init int64 = -1 << 62
	initHi := int64(-1 << 62)
	step := int64(0)
	for _, e := range ph.Edges {
		if c, isC := e.(*ssa.Const); isC && c.Value != nil {
			init = c.Int64()
			initHi = init
		} else if prm, isP := e.(*ssa.Parameter); isP {
			if l, h, okB := affineBound(prm, 1); okB {
				init, initHi = l, h
			}
		} else if bo, isB := e.(*ssa.BinOp); isB && (bo.Op == token.ADD || bo.Op == token.SUB) && bo.X == ph {
			if c, isC := bo.Y.(*ssa.Const); isC {
				step = c.Int64()
				if bo.Op == token.SUB {
					step = -step
				}
			}
		}
	}
	if init == -1<<62 || step == 0 {
		return 0, 0, false
	}
	// find a comparison of the phi (or phi+1 for range loops) against a constant that controls the loop
	var bound int64
	found := false
	check := func(x ssa.Value, adj int64) {
		refs := x.Referrers()
		if refs == nil {
			return
		}
		for _, r := range *refs {
			bo, isB := r.(*ssa.BinOp)
			if !isB {
				continue
			}
			if bo.X != x {
				continue
			}
			var cLo, cHi int64
			if c, isC := bo.Y.(*ssa.Const); isC && c.Value != nil {
				cLo, cHi = c.Int64(), c.Int64()
			} else if _, isParam := bo.Y.(*ssa.Parameter); isParam {
				l, h, okB := affineBound(bo.Y, 1)
				if !okB {
					continue
				}
				cLo, cHi = l, h
			} else {
				continue
			}
			switch bo.Op {
			case token.LSS:
				bound, found = cHi-1, true
			case token.LEQ:
				bound, found = cHi, true
			case token.GEQ, token.GTR:
				if step < 0 {
					bound, found = cLo, true
				}
			}
		}
	}
	check(ph, 0)
	if !found {
		// rangeindex: t = phi + 1; t < len
		if refs := ph.Referrers(); refs != nil {
			for _, r := range *refs {
				if bo, isB := r.(*ssa.BinOp); isB && bo.Op == token.ADD && bo.X == ph {
					if c, isC := bo.Y.(*ssa.Const); isC && c.Int64() == 1 {
						check(bo, 1)
					}
				}
			}
		}
	}
	if !found {
		return 0, 0, false
	}
	// the counter only takes the values init, init+step, ...: tighten the far end to the last value actually reached
	if step > 0 {
		if init != initHi {
			// a range of starting values: no stride tightening
			if bound < initHi {
				bound = initHi
			}
			return init, bound, true
		}
		if bound < init {
			return init, init, true
		}
		return init, init + ((bound-init)/step)*step, true
	}
	if init != initHi {
		return 0, 0, false
	}
	if bound > init {
		return init, init, true
	}
	return init - ((init-bound)/(-step))*(-step), init, true
}

// constSet computes the finite set of values of v when it is built from constants, acyclic phis and +/- constants.
func constSet(v ssa.Value, depth int, seen map[ssa.Value]bool) ([]int64, bool) {
	if depth > 12 || seen[v] {
		return nil, false
	}
	seen[v] = true
	defer delete(seen, v)
	switch x := v.(type) {
	case *ssa.Const:
		if x.Value == nil {
			return nil, false
		}
		return []int64{x.Int64()}, true
	case *ssa.Phi:
		var out []int64
		for _, e := range x.Edges {
			s, ok := constSet(e, depth+1, seen)
			if !ok {
				return nil, false
			}
			out = append(out, s...)
		}
		return out, true
	case *ssa.BinOp:
		c, isC := x.Y.(*ssa.Const)
		if !isC || (x.Op != token.ADD && x.Op != token.SUB) {
			return nil, false
		}
		s, ok := constSet(x.X, depth+1, seen)
		if !ok {
			return nil, false
		}
		for i := range s {
			if x.Op == token.ADD {
				s[i] += c.Int64()
			} else {
				s[i] -= c.Int64()
			}
		}
		return s, true
	case *ssa.Convert:
		return constSet(x.X, depth+1, seen)
	}
	return nil, false
}

// rangeIndex recognises go/ssa's range-over-array loop: idx = phi(-1, idx) + 1 guarded by idx < n.
func rangeIndex(idx ssa.Value) (int64, bool) {
	bo, ok := idx.(*ssa.BinOp)
	if !ok || bo.Op != token.ADD {
		return 0, false
	}
	ph, ok := bo.X.(*ssa.Phi)
	one, ok2 := bo.Y.(*ssa.Const)
	if !ok || !ok2 || one.Int64() != 1 || len(ph.Edges) != 2 {
		return 0, false
	}
	okInit, okStep := false, false
	for _, e := range ph.Edges {
		if c, isC := e.(*ssa.Const); isC && c.Value != nil && c.Int64() == -1 {
			okInit = true
		}
		if e == idx {
			okStep = true
		}
	}
	if !okInit || !okStep {
		return 0, false
	}
	if refs := idx.Referrers(); refs != nil {
		for _, r := range *refs {
			if cmp, isB := r.(*ssa.BinOp); isB && cmp.Op == token.LSS && cmp.X == idx {
				if c, isC := cmp.Y.(*ssa.Const); isC {
					return c.Int64(), true
				}
			}
		}
	}
	return 0, false
}

// sliceRange recognises `for i := range s { s[i] }`: idx = phi(-1, idx)+1 guarded by idx < len(s) for the same slice s.
func sliceRange(ia *ssa.IndexAddr) bool {
	bo, ok := ia.Index.(*ssa.BinOp)
	if !ok || bo.Op != token.ADD {
		return false
	}
	if refs := bo.Referrers(); refs != nil {
		for _, r := range *refs {
			cmp, isB := r.(*ssa.BinOp)
			if !isB || cmp.Op != token.LSS || cmp.X != bo {
				continue
			}
			if c, isCall := cmp.Y.(*ssa.Call); isCall {
				if b, isBuiltin := c.Common().Value.(*ssa.Builtin); isBuiltin && b.Name() == "len" && c.Common().Args[0] == ia.X {
					return true
				}
			}
		}
	}
	return false
}

// ruleIndexSites (P): every non-constant index site reachable from the API is bounded by its loop counter, or listed as a
// documented data-invariant assumption; a new undischarged site is a violation.
func ruleIndexSites(r *rep.Report, p *load.Program, rl *roles.Roles) {
	cfg := p.Cfg.Name
	roots := exportedAPI(p)
	mod, _, _ := ssau.Reachable(roots...)
	buildCallSiteIndex(p)
	var sites []indexSite
	nconst := 0
	for _, fn := range mod {
		for _, b := range fn.Blocks {
			for _, in := range b.Instrs {
				ia, ok := in.(*ssa.IndexAddr)
				if !ok {
					continue
				}
				if _, isC := ia.Index.(*ssa.Const); isC {
					nconst++
					continue
				}
				s := indexSite{fn: fn, in: in, base: ia.X.Name(), idx: ia.Index.Name()}
				if sliceRange(ia) {
					s.how = "range loop over the indexed slice itself (idx < len(slice))"
				}
				if _, isSl := ia.X.Type().Underlying().(*types.Slice); isSl && s.how == "" {
					if lo, hi, ok := counterBound(ia.Index); ok && lo >= 0 {
						if ln, ok := sliceLenLower(ia.X, 0); ok && hi < ln {
							s.how = fmt.Sprintf("counter in [%d,%d] below the slice's length (at least %d at every call site)", lo, hi, ln)
						}
					}
					// an unexported helper: judge it once per call site with its parameters bound to that site's arguments
					if s.how == "" && !token.IsExported(fn.Name()) && fn.Signature.Recv() == nil && len(callSiteIndex[fn]) > 0 {
						all := true
						for _, c := range callSiteIndex[fn] {
							for i, prm := range fn.Params {
								if i < len(c.Common().Args) {
									paramBinding[prm] = c.Common().Args[i]
								}
							}
							lo, hi, ok1 := counterBound(ia.Index)
							ln, ok2 := sliceLenLower(ia.X, 0)
							for _, prm := range fn.Params {
								delete(paramBinding, prm)
							}
							if !ok1 || !ok2 || lo < 0 || hi >= ln {
								all = false
								break
							}
						}
						if all {
							s.how = fmt.Sprintf("at each of the %d call sites the counter stays below the length of the slice passed", len(callSiteIndex[fn]))
						}
					}
				}
				if n, isArr := arrayLen(ia.X.Type()); isArr {
					// peel conversions
					idx := ia.Index
					for {
						if cv, ok := idx.(*ssa.Convert); ok {
							idx = cv.X
							continue
						}
						break
					}
					if lo, hi, ok := counterBound(idx); ok && lo >= 0 && hi < n {
						s.how = fmt.Sprintf("loop counter in [%d,%d] < %d", lo, hi, n)
					} else if m, ok := rangeIndex(idx); ok && m <= n {
						s.how = fmt.Sprintf("range loop over %d elements", m)
					} else if set, ok := constSet(idx, 0, map[ssa.Value]bool{}); ok {
						in := true
						for _, v := range set {
							if v < 0 || v >= n {
								in = false
							}
						}
						if in {
							s.how = fmt.Sprintf("index takes values %v < %d", set, n)
						}
					}
				}
				sites = append(sites, s)
			}
		}
	}
	open := map[string][]indexSite{}
	done := 0
	for _, s := range sites {
		if s.how != "" {
			done++
			continue
		}
		k := indexFamily(rl, s.fn)
		open[k] = append(open[k], s)
	}
	// sites of the two arithmetic packages that no syntactic argument bounds: the exact-algebra and magnitude runs execute
	// these packages with concrete loop counters; a site they reach with concrete indices only (and without an
	// out-of-range error, which fails those rules) is in range for every iteration
	{
		need := false
		for k, ss := range open {
			if _, listed := indexAssumptions[k]; listed {
				continue
			}
			for _, s := range ss {
				if ps := ssau.PkgSuffix(s.fn); ps == "internal/modm" || ps == "internal/curve25519" {
					need = true
				}
			}
		}
		if need {
			scratch := rep.New("scratch", "quick", "other")
			ruleExactModm(scratch, p)
			ruleExactWindow4(scratch, p)
			ruleMagnitudes(scratch, p, "curve25519")
			ruleBitOrigin(scratch, p, "modm")
			ruleBitOrigin(scratch, p, "curve25519")
			clean := scratch.Failed() == 0
			for k, ss := range open {
				if _, listed := indexAssumptions[k]; listed {
					continue
				}
				var rest []indexSite
				for _, s := range ss {
					ia, _ := s.in.(*ssa.IndexAddr)
					ps := ssau.PkgSuffix(s.fn)
					if clean && ia != nil && (ps == "internal/modm" || ps == "internal/curve25519") && absint.IndexConcrete[ia] && !absint.IndexAbstract[ia] {
						done++
						continue
					}
					rest = append(rest, s)
				}
				if len(rest) == 0 {
					delete(open, k)
				} else {
					open[k] = rest
				}
			}
		}
	}
	var names []string
	for k := range open {
		names = append(names, k)
	}
	sort.Strings(names)
	for _, k := range names {
		why, ok := indexAssumptions[k]
		if !ok {
			for _, s := range open[k] {
				r.Fail("P-index-sites", cfg, "every non-constant index is bounded by its loop counter or documented", ssau.InstrPos(p, s.in), "index:"+k, fmt.Sprintf("undischarged index site in %s: %s", k, s.in.String()))
			}
			continue
		}
		r.OK("P-index-sites", cfg, fmt.Sprintf("%s: %d data/length-dependent index sites", k, len(open[k])), "documented: "+why)
		r.Assume(k + ": " + why)
	}
	r.Check(done+nconst > 100, "P-index-sites", cfg, "index sites enumerated over the API-reachable code", "", fmt.Sprintf("%d constant-index sites, %d loop-counter sites discharged, %d sites in %d functions rest on documented invariants", nconst, done, len(sites)-done, len(names)), "too few index sites found")
	_ = strings.Join
}

// indexAssumptions: functions whose remaining non-constant index sites rest on a length guard established elsewhere or on a
// data invariant of the arithmetic (DESIGN section 4 P). One line of reason each; a function not listed here may have none.
var indexAssumptions = map[string]string{
	"role:batch-verifier":                        "entry accesses use offset+i (rule B1) with i < batchSize <= remaining and offset+remaining = n = len of all three inputs (rule B0 + the argument-count guard); scratch slots are below heapBatchSize = 2*maxBatchSize+1 because batchSize <= maxBatchSize (rules B0, A); the fail closure is only ever called with the entry index (rule B1)",
	"role:bos-coster":                            "Bos-Coster heap and multi-scalar loop (every root-package function reachable from the multi-scalar routine): indices are heap positions below heap.size <= count <= heapBatchSize, parents are (node-1)/2 >= 0 under Go's truncating division, the heap always holds at least three entries (count >= 9 is odd; rule E-heap-seed), limbSize decreases only while the top limb of the non-zero maximum is zero, the surviving scalar is non-zero and at most 128 bits (data-dependent loop invariants of the arithmetic, not re-derived)",
	"role:scMin":                                 "order[i] with i = 3,2,1,0: the loop returns at i == 0 before decrementing; engine F evaluates the function on every class without an out-of-range index",
	"internal/curve25519.Contract":               "write51Full is only called with n = 0..3 (constants) and idx advances by 8 from 0 to 24; evaluated concretely by engine R (Pack / IsNeutralVartime jobs) without an out-of-range index",
	"internal/ge25519.DoubleScalarmultVartime":   "pre1[|d|/2] and nielsSlidingMultiples[|d|/2] rest on the digit magnitudes of the sliding-window recoding (|d| <= 15 resp. <= 63); slide[i] is scanned for i from 255 down to 0 (data invariant of the recoding)",
	"internal/ge25519.scalarmultBaseChooseNiels": "table[pos*8+i] with i < 8 and pos = digit index / 2 <= 31; engine E evaluates all 32 positions without an out-of-range index",
	"internal/modm.ContractSlidingWindow":        "the bit-extraction phase is evaluated concretely by the bit-origin rule (256 slots, no out-of-range index); the sliding phase indexes r[j+b] and r[k] under the loop guards b < 256-j and k < 256",
	"internal/modm.ContractWindow4":              "evaluated concretely by the bit-origin rule (64 slots, no out-of-range index); the signed-digit pass runs i = 0..62 and touches r[i], r[i+1]",
	"internal/modm.SubVartime":                   "the running limb index takes the values 0..LimbSize-1 along the fall-through chain (one stage per limb; rule U checks the chain)",
}

// indexFamily keys a function by role where it has one, so that renaming a private helper does not change the key.
func indexFamily(rl *roles.Roles, fn *ssa.Function) string {
	top := fn
	for top.Parent() != nil {
		top = top.Parent()
	}
	switch {
	case rl.VerifyBatch != nil && top == rl.VerifyBatch:
		return "role:batch-verifier"
	case rl.ScMin != nil && top == rl.ScMin:
		return "role:scMin"
	}
	if rl.Msm != nil && top.Pkg == rl.Msm.Pkg {
		mod, _, _ := ssau.Reachable(rl.Msm)
		for _, f := range mod {
			if f == top {
				return "role:bos-coster"
			}
		}
	}
	// an unexported helper called from exactly one listed function inherits that function's entry (a step moved into a
	// helper keeps the data invariant it rests on)
	if !token.IsExported(top.Name()) && top.Signature.Recv() == nil && callSiteIndex != nil {
		var owner *ssa.Function
		same := true
		for _, c := range callSiteIndex[top] {
			caller := c.Parent()
			for caller.Parent() != nil {
				caller = caller.Parent()
			}
			if owner != nil && owner != caller {
				same = false
			}
			owner = caller
		}
		if same && owner != nil && owner != top {
			if _, listed := indexAssumptions[ssau.QName(owner)]; listed {
				return ssau.QName(owner)
			}
		}
	}
	return ssau.QName(top)
}

// sliceReq computes how many elements a module function needs in its i-th (slice) parameter: constant indices and
// constant slice bounds on the parameter, and the requirements of callees it hands the parameter to.
func sliceReq(p *load.Program, fn *ssa.Function, i int, memo map[string]int, depth int) int {
	key := fmt.Sprintf("%s#%d", ssau.QName(fn), i)
	if v, ok := memo[key]; ok {
		return v
	}
	memo[key] = 0
	if depth > 6 || len(fn.Blocks) == 0 {
		return 0
	}
	need := 0
	leaf := fmt.Sprintf("P%d", i)
	paths, err := pt.Enumerate(fn, geModel())
	if err != nil {
		return 0
	}
	for _, pa := range paths {
		for _, b := range pa.Bounds {
			if (b.What == "slice "+leaf || b.What == "index "+leaf) && b.Have < 0 && b.Need > need {
				need = b.Need
			}
		}
		for _, e := range pa.Events {
			for k, a := range e.Addrs {
				if a == nil || a.Op != "slice" || a.Args[0].String() != leaf || a.Args[1].String() != "#0" {
					continue
				}
				callee := calleeByEvent(p, e.Callee)
				if callee == nil {
					if n := externNeed(e.Callee, k); n > need && a.Args[2].String() == "" {
						need = n
					}
					continue
				}
				if a.Args[2].String() == "" { // handed on whole
					if n := sliceReq(p, callee, k, memo, depth+1); n > need {
						need = n
					}
				}
			}
		}
	}
	memo[key] = need
	return need
}

func externNeed(callee string, arg int) int {
	switch callee {
	case "ext:(encoding/binary.littleEndian).Uint64", "ext:(encoding/binary.littleEndian).PutUint64":
		return 8
	case "ext:(encoding/binary.littleEndian).Uint32", "ext:(encoding/binary.littleEndian).PutUint32":
		return 4
	}
	return 0
}

func calleeByEvent(p *load.Program, name string) *ssa.Function {
	for _, pre := range []string{"", "internal/"} {
		q := pre + name
		for _, f := range ssau.AllFuncs(p) {
			if ssau.QName(f) == q && f.Parent() == nil {
				return f
			}
		}
	}
	return nil
}

// checkPathBounds reports the bounds obligations of a set of paths: constant accesses must be covered by a length the path knows.
func checkPathBounds(r *rep.Report, p *load.Program, role string, paths []*pt.Path, memo map[string]int) {
	cfg := p.Cfg.Name
	n, bad := 0, 0
	for _, pa := range paths {
		if pa.Kind == "panic" {
			continue
		}
		for _, b := range pa.Bounds {
			if strings.Contains(b.What, "G:") {
				continue // package-level slices (the exported X25519 base point): a caller who overwrites them is out of scope
			}
			n++
			if b.Have < b.Need {
				bad++
				have := "no length guard on this path"
				if b.Have >= 0 {
					have = fmt.Sprintf("length %d", b.Have)
				}
				pos := ssau.Pos(p, b.Pos)
				r.Fail("P-bounds", cfg, role+": every constant index / slice bound is covered by a dominating length fact", pos, "bounds:"+role+":"+b.What+fmt.Sprint(b.Need),
					fmt.Sprintf("%s needs %d elements but the path establishes %s: can panic on a short input", b.What, b.Need, have))
			}
		}
		for _, e := range pa.Events {
			callee := calleeByEvent(p, e.Callee)
			for k := range e.Lens {
				if e.Lens[k] == -2 {
					continue
				}
				req := externNeed(e.Callee, k)
				if callee != nil {
					req = sliceReq(p, callee, k, memo, 0)
				}
				if req == 0 {
					continue
				}
				n++
				if e.Lens[k] < req {
					bad++
					have := "a slice of unknown length"
					if e.Lens[k] >= 0 {
						have = fmt.Sprintf("a %d-byte slice", e.Lens[k])
					}
					r.Fail("P-bounds", cfg, role+": callees receive slices at least as long as they index", ssau.Pos(p, e.Pos), "bounds:"+role+":call:"+e.Callee+fmt.Sprint(k),
						fmt.Sprintf("%s indexes its argument %d up to %d elements but is given %s", e.Callee, k, req, have))
				}
			}
		}
	}
	if bad == 0 {
		r.Check(n > 0 || len(paths) > 0, "P-bounds", cfg, role+": constant indices, slice bounds and callee length requirements are covered on every path", "", fmt.Sprintf("%d obligations on %d paths", n, len(paths)), "no path analysed")
	}
}

// ruleBounds (P): length-dependent panic sites of the API-facing code.
func ruleBounds(r *rep.Report, p *load.Program, rl *roles.Roles) {
	memo := map[string]int{}
	m := rootModel(rl)
	type tgt struct {
		fn    *ssa.Function
		role  string
		facts map[int]int
	}
	tg := []tgt{{rl.VerifyCore, "verifyCore", nil}, {rl.NoPanic, "noPanic", nil}, {rl.SignCore, "signCore", nil}, {rl.NewKeyFromSeed, "NewKeyFromSeed", nil},
		{rl.GenerateKey, "GenerateKey", nil}, {rl.SmallOrder, "smallOrder", map[int]int{0: 32}}, {rl.WriteDom2, "writeDom2", nil},
		{ssau.Func(p, "extra/x25519", "x25519"), "x25519", nil}, {ssau.Func(p, "internal/ge25519", "UnpackVartime"), "UnpackVartime", map[int]int{1: 32}}}
	for _, t := range tg {
		if t.fn == nil {
			continue
		}
		mm := *m
		mm.Facts = t.facts
		if t.fn == rl.NewKeyFromSeed {
			mm.Name = func(f *ssa.Function) string {
				if f == rl.NewKeyFromSeed {
					return ""
				}
				return m.Name(f)
			}
		}
		if t.fn == rl.GenerateKey {
			mm.ResultLen = map[string]int{"NewKeyFromSeed": 64}
		}
		paths, err := pt.Enumerate(t.fn, &mm)
		if err != nil {
			continue
		}
		checkPathBounds(r, p, t.role, paths, memo)
	}
	r.Assume("scMin's word reads are bounds-checked by engine F on every class (a read past the 32-byte scalar is reported there)")
	if len(tg[5].facts) > 0 {
		r.Assume("smallOrder / UnpackVartime are only ever given 32-byte slices: their call sites are checked by the callee-requirement rule (P-bounds) in verifyCore and the batch loops")
	}
}

// ruleZeroScanGuard (P): a downward scan `for s[k] == 0 { k-- }` over the limbs of a scalar in the multi-scalar family
// terminates above index 0 only when the scalar is non-zero; every such loop must be reached only through the false
// branch of modm.IsZeroVartime on the same scalar.
func ruleZeroScanGuard(r *rep.Report, p *load.Program, rl *roles.Roles) {
	cfg := p.Cfg.Name
	if rl.Msm == nil {
		return
	}
	mod, _, _ := ssau.Reachable(rl.Msm)
	n := 0
	for _, fn := range mod {
		if fn.Pkg != rl.Msm.Pkg || len(fn.Blocks) == 0 {
			continue
		}
		for _, blk := range fn.Blocks {
			ifi, ok := blk.Instrs[len(blk.Instrs)-1].(*ssa.If)
			if !ok {
				continue
			}
			cmp, ok := ifi.Cond.(*ssa.BinOp)
			if !ok || (cmp.Op != token.EQL && cmp.Op != token.NEQ) {
				continue
			}
			if z, ok := constIntV(cmp.Y); !ok || z != 0 {
				continue
			}
			ld, ok := cmp.X.(*ssa.UnOp)
			if !ok || ld.Op != token.MUL {
				continue
			}
			ia, ok := ld.X.(*ssa.IndexAddr)
			if !ok {
				continue
			}
			ph, ok := ia.Index.(*ssa.Phi)
			if !ok {
				continue
			}
			// the successor taken while the limb is zero must lead back to the phi's block with the index decremented
			zeroSucc := blk.Succs[0]
			if cmp.Op == token.NEQ {
				zeroSucc = blk.Succs[1]
			}
			back := false
			for ei, e := range ph.Edges {
				bo, ok := e.(*ssa.BinOp)
				if !ok || bo.Op != token.SUB || bo.X != ph {
					continue
				}
				pred := ph.Block().Preds[ei]
				if zeroSucc == bo.Block() || zeroSucc == pred || zeroSucc.Dominates(pred) {
					back = true
				}
			}
			if !back || !strings.HasSuffix(ia.X.Type().String(), "modm.Bignum256") {
				continue
			}
			// only scans for a non-zero limb (the loop is left on the non-zero side without touching the limb further)
			if !scanOnly(blk, ph) {
				continue
			}
			n++
			guarded := false
			for _, g := range fn.Blocks {
				gi, ok := g.Instrs[len(g.Instrs)-1].(*ssa.If)
				if !ok {
					continue
				}
				cond, neg := gi.Cond, false
				if u, ok := cond.(*ssa.UnOp); ok && u.Op == token.NOT {
					cond, neg = u.X, true
				}
				call, ok := cond.(*ssa.Call)
				if !ok {
					continue
				}
				cal := call.Common().StaticCallee()
				if cal == nil || cal.Name() != "IsZeroVartime" || cal.Pkg == nil || !strings.HasSuffix(cal.Pkg.Pkg.Path(), "internal/modm") || call.Common().Args[0] != ia.X {
					continue
				}
				nz := g.Succs[1]
				if neg {
					nz = g.Succs[0]
				}
				if len(nz.Preds) == 1 && nz.Dominates(ph.Block()) {
					guarded = true
				}
			}
			r.Check(guarded, "P-zero-scan", cfg, "a leading-zero-limb scan over a scalar runs only after modm.IsZeroVartime(scalar) returned false", ssau.InstrPos(p, ifi),
				"dominated by the non-zero branch of IsZeroVartime on the same scalar", "the downward limb scan in "+fn.Name()+" is not guarded by a zero test of the scalar: an all-zero scalar indexes below limb 0 and panics")
		}
	}
	r.Check(n > 0, "P-zero-scan", cfg, "the multi-scalar family's leading-zero-limb scans are enumerated", "", fmt.Sprintf("%d scan loops", n), "no leading-zero-limb scan found in the multi-scalar family (unrecognised shape)")
}

func constIntV(v ssa.Value) (int64, bool) {
	c, ok := v.(*ssa.Const)
	if !ok || c.Value == nil {
		return 0, false
	}
	return c.Int64(), true
}

// scanOnly: the test block does nothing but load the limb and branch (so the loop is a pure scan for a non-zero limb,
// not the ladder, which also tests limbs of the same scalar).
func scanOnly(blk *ssa.BasicBlock, ph *ssa.Phi) bool {
	for _, in := range blk.Instrs {
		switch in.(type) {
		case *ssa.Phi, *ssa.IndexAddr, *ssa.UnOp, *ssa.BinOp, *ssa.If, *ssa.DebugRef:
		default:
			return false
		}
	}
	// the loop containing the test consists of at most three blocks (header/test, decrement) and calls nothing
	loopBlk := ph.Block()
	seen := map[*ssa.BasicBlock]bool{}
	var walk func(b *ssa.BasicBlock) bool
	walk = func(b *ssa.BasicBlock) bool {
		if seen[b] {
			return true
		}
		seen[b] = true
		if len(seen) > 4 {
			return false
		}
		for _, in := range b.Instrs {
			if _, isCall := in.(*ssa.Call); isCall {
				return false
			}
			if _, isStore := in.(*ssa.Store); isStore {
				return false
			}
		}
		if b == blk {
			return true
		}
		for _, s := range b.Succs {
			if !walk(s) {
				return false
			}
		}
		return true
	}
	return walk(loopBlk)
}

// guardedUpper: an upper bound of v established by a comparison with a constant on every way into block at.
func guardedUpper(v ssa.Value, at *ssa.BasicBlock) (int64, bool) {
	best, found := int64(0), false
	for _, b := range at.Parent().Blocks {
		ifi, ok := b.Instrs[len(b.Instrs)-1].(*ssa.If)
		if !ok {
			continue
		}
		cmp, ok := ifi.Cond.(*ssa.BinOp)
		if !ok || cmp.X != v {
			continue
		}
		c, ok := cmp.Y.(*ssa.Const)
		if !ok || c.Value == nil {
			continue
		}
		edge := func(s *ssa.BasicBlock) bool { return len(s.Preds) == 1 && s.Dominates(at) }
		var ub int64
		okB := false
		switch cmp.Op {
		case token.LSS:
			if edge(b.Succs[0]) {
				ub, okB = c.Int64()-1, true
			}
		case token.LEQ:
			if edge(b.Succs[0]) {
				ub, okB = c.Int64(), true
			}
		case token.GEQ:
			if edge(b.Succs[1]) {
				ub, okB = c.Int64()-1, true
			}
		case token.GTR:
			if edge(b.Succs[1]) {
				ub, okB = c.Int64(), true
			}
		}
		if okB && (!found || ub < best) {
			best, found = ub, true
		}
	}
	return best, found
}

// downCounterBound: phi(init, phi-1) kept >= c by the loop test, with init bounded above by a dominating guard.
func downCounterBound(ph *ssa.Phi) (lo, hi int64, ok bool) {
	if len(ph.Edges) != 2 {
		return 0, 0, false
	}
	var init ssa.Value
	step := false
	for _, e := range ph.Edges {
		if bo, isB := e.(*ssa.BinOp); isB && bo.Op == token.SUB && bo.X == ph {
			if c, isC := bo.Y.(*ssa.Const); isC && c.Value != nil && c.Int64() == 1 {
				step = true
				continue
			}
		}
		init = e
	}
	if !step || init == nil {
		return 0, 0, false
	}
	refs := ph.Referrers()
	if refs == nil {
		return 0, 0, false
	}
	lower, found := int64(0), false
	for _, r := range *refs {
		bo, isB := r.(*ssa.BinOp)
		if !isB || bo.X != ssa.Value(ph) || bo.Block() != ph.Block() {
			continue
		}
		c, isC := bo.Y.(*ssa.Const)
		if !isC || c.Value == nil {
			continue
		}
		// the comparison must be the loop test of the phi's block with the body on its true side
		ifi, isIf := ph.Block().Instrs[len(ph.Block().Instrs)-1].(*ssa.If)
		if !isIf || ifi.Cond != ssa.Value(bo) {
			continue
		}
		switch bo.Op {
		case token.GEQ:
			lower, found = c.Int64(), true
		case token.GTR:
			lower, found = c.Int64()+1, true
		}
	}
	if !found {
		return 0, 0, false
	}
	if c, isC := init.(*ssa.Const); isC && c.Value != nil {
		return lower, c.Int64(), true
	}
	ub, okU := guardedUpper(init, ph.Block())
	if !okU {
		return 0, 0, false
	}
	return lower, ub, true
}

// callSiteIndex: static call sites per function of the program under analysis (set by ruleIndexSites).
var callSiteIndex map[*ssa.Function][]ssa.CallInstruction

// paramBinding: while a helper is judged for one particular call site, its parameters stand for that site's arguments.
var paramBinding = map[*ssa.Parameter]ssa.Value{}

func buildCallSiteIndex(p *load.Program) {
	callSiteIndex = map[*ssa.Function][]ssa.CallInstruction{}
	for _, fn := range ssau.AllFuncs(p) {
		for _, b := range fn.Blocks {
			for _, in := range b.Instrs {
				if c, ok := in.(ssa.CallInstruction); ok {
					if cal := c.Common().StaticCallee(); cal != nil {
						callSiteIndex[cal] = append(callSiteIndex[cal], c)
					}
				}
			}
		}
	}
}

// sliceLenLower: a lower bound of len(v) for a slice value.
func sliceLenLower(v ssa.Value, depth int) (int64, bool) {
	if depth > 5 {
		return 0, false
	}
	switch x := v.(type) {
	case *ssa.Slice:
		var capN int64 = -1
		if pt, ok := x.X.Type().Underlying().(*types.Pointer); ok {
			if at, ok := pt.Elem().Underlying().(*types.Array); ok {
				capN = at.Len()
			}
		}
		base := capN
		if capN < 0 {
			b, ok := sliceLenLower(x.X, depth+1)
			if !ok {
				return 0, false
			}
			base = b
		}
		hiLo := base
		if x.High != nil {
			l, _, ok := affineBound(x.High, depth+1)
			if !ok {
				return 0, false
			}
			hiLo = l
		}
		var lowHi int64
		if x.Low != nil {
			_, h, ok := affineBound(x.Low, depth+1)
			if !ok {
				return 0, false
			}
			lowHi = h
		}
		if hiLo-lowHi < 0 {
			return 0, false
		}
		return hiLo - lowHi, true
	case *ssa.MakeSlice:
		l, _, ok := affineBound(x.Len, depth+1)
		return l, ok
	case *ssa.Parameter:
		if arg, bound := paramBinding[x]; bound {
			return sliceLenLower(arg, depth+1)
		}
		fn := x.Parent()
		if fn == nil || token.IsExported(fn.Name()) || fn.Signature.Recv() != nil || callSiteIndex == nil {
			return 0, false
		}
		idx := -1
		for i, p := range fn.Params {
			if p == x {
				idx = i
			}
		}
		sites := callSiteIndex[fn]
		if idx < 0 || len(sites) == 0 {
			return 0, false
		}
		best := int64(-1)
		for _, c := range sites {
			l, ok := sliceLenLower(c.Common().Args[idx], depth+1)
			if !ok {
				return 0, false
			}
			if best < 0 || l < best {
				best = l
			}
		}
		return best, best >= 0
	}
	return 0, false
}
