package main

import (
	"golang.org/x/tools/go/ssa"

	"verif/internal/mem"
	"verif/internal/rep"
	"verif/internal/ssau"
)

func init() {
	register("C15", "proof", checkC15)
}

// rulePurity (M4): the signing / key-derivation cone reads no entropy, writes no package-level state and calls only modelled externals.
func rulePurity(c *Ctx, r *rep.Report, cone string) {
	p, rl := c.mustLoad(r, "amd64-default")
	if p == nil {
		return
	}
	an := mem.New()
	roots := []*ssa.Function{rl.Sign, rl.PrivSign, rl.NewKeyFromSeed}
	ruleExternals(r, p, an, roots, "signing cone", map[string]bool{})
	ruleGlobalWrites(r, p, an)
}

func checkC15(c *Ctx, r *rep.Report) {
	r.Explanation = "M1: on every configuration, no function outside package initialisers writes memory reachable from a package-level variable (the one dead test switch is frozen with its reason); M2: exported functions write only locals and declared out-parameters; M5: no goroutine, channel, defer, sync or atomic construct and no unmodelled external (so no hidden shared state such as sync.Pool). Hence concurrent calls on read-only shared inputs have no conflicting accesses and every result is a function of the arguments (plus the caller's own reader)."
	r.NotDecided = "the Go memory model and the standard library (sha512.New returns a fresh object; crypto/rand.Reader is safe for concurrent use) are trusted"
	r.Trust("externals table (/verif/internal/mem): sha512.New returns a fresh object, hash methods touch only their receiver, crypto/rand.Reader is concurrency-safe")
	r.Trust("flow-insensitive provenance analysis with summaries is an over-approximation (unknown provenance fails closed)")
	c.Preload(c.Configs())
	for _, cfg := range c.Configs() {
		p, _ := c.mustLoad(r, cfg)
		if p == nil {
			continue
		}
		an := mem.New()
		ruleGlobalWrites(r, p, an)
		ruleNoParamWrites(r, p, an)
		ruleExternals(r, p, an, exportedAPI(p), "public API", map[string]bool{"GenerateKey": true, "VerifyBatch": true})
	}
	_ = ssau.QName
}

func init() { register("C13", "other", checkC13) }

func checkC13(c *Ctx, r *rep.Report) {
	r.Explanation = "G: the documented panics are matched by guard (wrong-length private key / public key / seed; option errors re-raised by VerifyWithOptions) and the batch verifier's per-entry length checks precede every use with fallback through the no-panic helper; M2: no exported function writes memory reachable from a caller-supplied slice (UnpackVartime flips the sign bit on a private copy; results are fresh), on every configuration of the tier; P: implicit panic sites (index / slice bounds) are discharged by dominating length facts."
	r.NotDecided = "index sites whose safety rests on data invariants of the arithmetic (sliding-window digit magnitudes, Bos-Coster limb scans) are listed as frozen assumptions, not proved"
	for _, cfg := range c.Configs() {
		p, rl := c.mustLoad(r, cfg)
		if p == nil {
			continue
		}
		an := mem.New()
		ruleNoParamWrites(r, p, an)
		ruleOutParamTable(r, p, an)
		ruleFreshness(r, p, an, nil)
		if cfg == "amd64-default" {
			if fl := rootFlags(r, p, rl); fl != nil {
				ruleVerifyCore(r, p, rl, fl, "G-verify")
				ruleNoPanic(r, p, rl)
				ruleVerifyWrappers(r, p, rl, fl)
				ruleSignCore(r, p, rl, fl)
				ruleNewKeyFromSeed(r, p, rl)
				ruleBatchAll(c, r, p, rl, fl)
			}
			ruleX25519(r, p)
			ruleDecode(r, p)
		}
		rulePanicSites(r, p, rl)
	}
}
