package main

import (
	"fmt"
	"math/big"
	"sync"

	"golang.org/x/tools/go/ssa"

	"verif/internal/lit"
	"verif/internal/load"
	"verif/internal/rep"
	"verif/internal/roles"
	"verif/internal/ssau"
)

// Ctx carries the loaded configurations for one invocation.
type Ctx struct {
	Tier string
	mu   sync.Mutex
	prog map[string]*load.Program
	rl   map[string]*roles.Roles
	errs map[string]error
}

func newCtx(tier string) *Ctx {
	return &Ctx{Tier: tier, prog: map[string]*load.Program{}, rl: map[string]*roles.Roles{}, errs: map[string]error{}}
}

// Configs returns the configuration names of the tier.
func (c *Ctx) Configs() []string {
	if c.Tier == "thorough" {
		var out []string
		for _, m := range load.Matrix {
			out = append(out, m.Name)
		}
		return out
	}
	return load.QuickNames
}

// Prog loads (once) and returns a configuration.
func (c *Ctx) Prog(name string) (*load.Program, error) {
	c.mu.Lock()
	defer c.mu.Unlock()
	if p, ok := c.prog[name]; ok {
		return p, c.errs[name]
	}
	cfg, ok := load.ByName(name)
	if !ok {
		return nil, fmt.Errorf("unknown configuration %s", name)
	}
	p, err := load.Load(cfg, false)
	c.prog[name] = p
	c.errs[name] = err
	return p, err
}

// Preload loads the configurations in parallel.
func (c *Ctx) Preload(names []string) {
	var wg sync.WaitGroup
	type res struct {
		n string
		p *load.Program
		e error
	}
	ch := make(chan res, len(names))
	for _, n := range names {
		c.mu.Lock()
		_, have := c.prog[n]
		c.mu.Unlock()
		if have {
			continue
		}
		wg.Add(1)
		go func(n string) {
			defer wg.Done()
			cfg, _ := load.ByName(n)
			p, err := load.Load(cfg, false)
			ch <- res{n, p, err}
		}(n)
	}
	wg.Wait()
	close(ch)
	c.mu.Lock()
	for r := range ch {
		c.prog[r.n] = r.p
		c.errs[r.n] = r.e
	}
	c.mu.Unlock()
}

// Roles resolves roles on a configuration.
func (c *Ctx) Roles(name string) (*load.Program, *roles.Roles, error) {
	p, err := c.Prog(name)
	if err != nil {
		return nil, nil, err
	}
	c.mu.Lock()
	defer c.mu.Unlock()
	if r, ok := c.rl[name]; ok {
		return p, r, nil
	}
	r := roles.Resolve(p)
	c.rl[name] = r
	return p, r, nil
}

// mustLoad loads a configuration, recording a failure in the report if it does not load.
func (c *Ctx) mustLoad(r *rep.Report, name string) (*load.Program, *roles.Roles) {
	p, rl, err := c.Roles(name)
	if err != nil {
		r.Fail("load", name, "configuration loads and type-checks", "", "load:"+name, err.Error())
		return nil, nil
	}
	r.OK("load", name, "configuration loads and type-checks", fmt.Sprintf("%d module packages", len(p.Pkgs)))
	found := false
	for _, x := range r.Configs {
		if x == name {
			found = true
		}
	}
	if !found {
		r.Configs = append(r.Configs, name)
	}
	return p, rl
}

// needRole fails the report when a role did not resolve.
func needRole(r *rep.Report, cfg string, rl *roles.Roles, name string, fn *ssa.Function) bool {
	if fn != nil {
		return true
	}
	msg := rl.Errs[name]
	if msg == "" {
		msg = "role " + name + " unresolved"
	}
	r.Fail("role", cfg, "role "+name+" resolves uniquely", "", "role:"+name, msg)
	return false
}

// globalReader reads package-level arrays of integers from the source literals.
func globalReader(p *load.Program) func(g *ssa.Global, idx int) (*big.Int, bool) {
	cache := map[*ssa.Global][]*big.Int{}
	return func(g *ssa.Global, idx int) (*big.Int, bool) {
		vals, ok := cache[g]
		if !ok {
			for _, pkg := range p.Pkgs {
				if pkg.Types == g.Pkg.Pkg {
					n, err := lit.Var(pkg, g.Name())
					if err == nil {
						vals, _ = n.Ints()
					}
				}
			}
			cache[g] = vals
		}
		if idx < 0 || idx >= len(vals) {
			return nil, false
		}
		return vals[idx], true
	}
}

func qn(f *ssa.Function) string { return ssau.QName(f) }
