package main

import (
	"go/token"
	"go/types"
	"golang.org/x/tools/go/ssa"

	"verif/internal/pt"
	"verif/internal/roles"
)

// pureFuncs: module callees that write none of their arguments (cross-checked against engine M's write summaries).
var pureFuncs = map[string]bool{
	"internal/ge25519.IsNeutralVartime":    true,
	"internal/ge25519.CofactorEqual":       true,
	"internal/modm.LessThanVartime":        true,
	"internal/modm.LessThanOrEqualVartime": true,
	"internal/modm.IsZeroVartime":          true,
	"internal/modm.IsOneVartime":           true,
	"internal/modm.IsAtMost128bitsVartime": true,
	"internal/ge25519.windowbEqual":        true,
	"extra/x25519.checkBasepoint":          true,
}

// inOutFuncs: module callees whose first argument is read as well as written.
var inOutFuncs = map[string]bool{
	"internal/ge25519.nielsAdd2":     true, // r = r + q
	"internal/ge25519.p1p1ToPartial": true, // leaves r.t untouched
	"internal/modm.reduce":           true, // r = r mod L in place
}

// rootModel builds the call model with role names for the root package.
func rootModel(rl *roles.Roles) *pt.Model {
	names := map[*ssa.Function]string{}
	add := func(f *ssa.Function, n string) {
		if f != nil {
			names[f] = n
		}
	}
	add(rl.VerifyCore, "verifyCore")
	add(rl.NoPanic, "noPanic")
	add(rl.SignCore, "signCore")
	add(rl.ScMin, "scMin")
	add(rl.SmallOrder, "smallOrder")
	add(rl.Unwrap, "unwrap")
	add(rl.CheckHash, "checkHash")
	add(rl.WriteDom2, "dom2")
	add(rl.BatchNeutral, "batchNeutral")
	add(rl.NewKeyFromSeed, "NewKeyFromSeed")
	add(rl.BoolToRet, "boolToRet")
	pure := map[string]bool{}
	for k, v := range pureFuncs {
		pure[k] = v
	}
	m := &pt.Model{
		Pure:       pure,
		InOut:      inOutFuncs,
		HashAppend: map[string]bool{"dom2": true},
		Facts:      map[int]int{},
		Name: func(f *ssa.Function) string {
			return names[f]
		},
	}
	// small private predicates over scalars (sameLen(a, b, c int) bool and the like) are interpreted in place with all
	// their paths, so that a guard moved into such a helper keeps its atoms
	m.InlineAll = func(f *ssa.Function) bool {
		if f == nil || names[f] != "" || f.Parent() != nil || f.Signature.Recv() != nil || token.IsExported(f.Name()) || len(f.Blocks) == 0 || len(f.Blocks) > 12 {
			return false
		}
		if rl.VerifyBatch == nil || f.Pkg != rl.VerifyBatch.Pkg {
			return false
		}
		basic := func(t types.Type) bool {
			_, ok := t.Underlying().(*types.Basic)
			return ok
		}
		ps, rs := f.Signature.Params(), f.Signature.Results()
		if rs.Len() > 1 || ps.Len() == 0 {
			return false
		}
		allBasic := true
		for i := 0; i < ps.Len(); i++ {
			if !basic(ps.At(i).Type()) {
				allBasic = false
			}
		}
		for i := 0; i < rs.Len(); i++ {
			if !basic(rs.At(i).Type()) {
				allBasic = false
			}
		}
		// no loops; scalar predicates call nothing, guard wrappers (no result) call role functions only
		calls := 0
		for _, b := range f.Blocks {
			for _, s := range b.Succs {
				if s.Index <= b.Index {
					return false
				}
			}
			for _, in := range b.Instrs {
				if c, isCall := in.(*ssa.Call); isCall {
					cal := c.Common().StaticCallee()
					if cal == nil || names[cal] == "" {
						return false
					}
					calls++
				}
			}
		}
		if allBasic && calls == 0 {
			return true
		}
		return rs.Len() == 0 && calls == 1 && len(f.Blocks) <= 4
	}
	// role functions of the root package are pure with respect to their arguments (engine M checks that)
	for f := range names {
		if f != rl.WriteDom2 {
			pure[qn(f)] = true
		}
	}
	return m
}
