package main

import (
	"go/token"
	"golang.org/x/tools/go/ssa"
	"verif/internal/ssau"

	"verif/internal/pt"
	"verif/internal/roles"
)

// pureFuncs: module callees that write none of their arguments (cross-checked against engine M's write summaries).
var pureFuncs = map[string]bool{
	"internal/ge25519.IsNeutralVartime":    true,
	"internal/ge25519.CofactorEqual":       true,
	"internal/modm.LessThanVartime":        true,
	"internal/modm.LessThanOrEqualVartime": true,
	"internal/modm.IsZeroVartime":          true,
	"internal/modm.IsOneVartime":           true,
	"internal/modm.IsAtMost128bitsVartime": true,
	"internal/ge25519.windowbEqual":        true,
	"extra/x25519.checkBasepoint":          true,
}

// inOutFuncs: module callees whose first argument is read as well as written.
var inOutFuncs = map[string]bool{
	"internal/ge25519.nielsAdd2":     true, // r = r + q
	"internal/ge25519.p1p1ToPartial": true, // leaves r.t untouched
	"internal/modm.reduce":           true, // r = r mod L in place
}

// rootModel builds the call model with role names for the root package.
func rootModel(rl *roles.Roles) *pt.Model {
	names := map[*ssa.Function]string{}
	add := func(f *ssa.Function, n string) {
		if f != nil {
			names[f] = n
		}
	}
	add(rl.VerifyCore, "verifyCore")
	add(rl.NoPanic, "noPanic")
	add(rl.SignCore, "signCore")
	add(rl.ScMin, "scMin")
	add(rl.SmallOrder, "smallOrder")
	add(rl.Unwrap, "unwrap")
	add(rl.CheckHash, "checkHash")
	add(rl.WriteDom2, "dom2")
	add(rl.BatchNeutral, "batchNeutral")
	add(rl.NewKeyFromSeed, "NewKeyFromSeed")
	add(rl.BoolToRet, "boolToRet")
	pure := map[string]bool{}
	for k, v := range pureFuncs {
		pure[k] = v
	}
	m := &pt.Model{
		Pure:       pure,
		InOut:      inOutFuncs,
		HashAppend: map[string]bool{"dom2": true},
		Facts:      map[int]int{},
		Name: func(f *ssa.Function) string {
			return names[f]
		},
	}
	// unexported top-level helpers of the root package that are not role functions are interpreted in place with all their
	// paths (shared memory, shared hash objects, real return values): a core function split into helper steps, a guard
	// moved into a predicate, a wrapper around a role function all keep their atoms and terms
	recursive := func(f *ssa.Function) bool {
		for _, b := range f.Blocks {
			for _, in := range b.Instrs {
				if c, ok := in.(*ssa.Call); ok && c.Common().StaticCallee() == f {
					return true
				}
			}
		}
		return false
	}
	m.InlineAll = func(f *ssa.Function) bool {
		if f == nil || names[f] != "" || f.Parent() != nil || f.Signature.Recv() != nil || token.IsExported(f.Name()) || len(f.Blocks) == 0 || len(f.Blocks) > 80 {
			return false
		}
		if rl.VerifyBatch == nil || f.Pkg != rl.VerifyBatch.Pkg {
			return false
		}
		// the multi-scalar family has data-dependent loops and is analysed by its own rules
		if rl.Msm != nil {
			mod, _, _ := ssau.Reachable(rl.Msm)
			for _, g := range mod {
				if g == f {
					return false
				}
			}
		}
		return !recursive(f)
	}
	// role functions of the root package are pure with respect to their arguments (engine M checks that)
	for f := range names {
		if f != rl.WriteDom2 {
			pure[qn(f)] = true
		}
	}
	return m
}
