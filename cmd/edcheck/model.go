package main

import (
	"golang.org/x/tools/go/ssa"

	"verif/internal/pt"
	"verif/internal/roles"
)

// pureFuncs: module callees that write none of their arguments (cross-checked against engine M's write summaries).
var pureFuncs = map[string]bool{
	"internal/ge25519.IsNeutralVartime":    true,
	"internal/ge25519.CofactorEqual":       true,
	"internal/modm.LessThanVartime":        true,
	"internal/modm.LessThanOrEqualVartime": true,
	"internal/modm.IsZeroVartime":          true,
	"internal/modm.IsOneVartime":           true,
	"internal/modm.IsAtMost128bitsVartime": true,
	"internal/ge25519.windowbEqual":        true,
	"extra/x25519.checkBasepoint":          true,
}

// inOutFuncs: module callees whose first argument is read as well as written.
var inOutFuncs = map[string]bool{
	"internal/ge25519.nielsAdd2":     true, // r = r + q
	"internal/ge25519.p1p1ToPartial": true, // leaves r.t untouched
	"internal/modm.reduce":           true, // r = r mod L in place
}

// rootModel builds the call model with role names for the root package.
func rootModel(rl *roles.Roles) *pt.Model {
	names := map[*ssa.Function]string{}
	add := func(f *ssa.Function, n string) {
		if f != nil {
			names[f] = n
		}
	}
	add(rl.VerifyCore, "verifyCore")
	add(rl.NoPanic, "noPanic")
	add(rl.SignCore, "signCore")
	add(rl.ScMin, "scMin")
	add(rl.SmallOrder, "smallOrder")
	add(rl.Unwrap, "unwrap")
	add(rl.CheckHash, "checkHash")
	add(rl.WriteDom2, "dom2")
	add(rl.BatchNeutral, "batchNeutral")
	add(rl.NewKeyFromSeed, "NewKeyFromSeed")
	pure := map[string]bool{}
	for k, v := range pureFuncs {
		pure[k] = v
	}
	m := &pt.Model{
		Pure:       pure,
		InOut:      inOutFuncs,
		HashAppend: map[string]bool{"dom2": true},
		Facts:      map[int]int{},
		Name: func(f *ssa.Function) string {
			return names[f]
		},
	}
	// role functions of the root package are pure with respect to their arguments (engine M checks that)
	for f := range names {
		if f != rl.WriteDom2 {
			pure[qn(f)] = true
		}
	}
	return m
}
