package main

import (
	"verif/internal/rep"
)

// ruleScMinControl is filled in by the fixtures harness.
func ruleScMinControl(r *rep.Report) {}
