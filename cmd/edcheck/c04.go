package main

import (
	"fmt"
	"math/big"

	"verif/internal/engine/f"
	"verif/internal/lit"
	"verif/internal/load"
	"verif/internal/rep"
	"verif/internal/roles"
	"verif/internal/ssau"
)

func init() { register("C04", "proof", checkC04) }

// ruleScMinExact: F — scMin(s) ⇔ s < L on every abstract class; A — order = L as written.
func ruleScMinExact(r *rep.Report, p *load.Program, rl *roles.Roles) {
	cfg := p.Cfg.Name
	if !needRole(r, cfg, rl, "scMin", rl.ScMin) {
		return
	}
	pos := ssau.Pos(p, rl.ScMin.Pos())
	// A: every package-level integer array the function reads must spell L.
	lw := f.LWords()
	read := globalReader(p)
	res := f.CheckScMin(rl.ScMin, read)
	r.Count("scmin-classes", res.Classes)
	r.Extra["scmin_classes"] = res.Classes
	r.Extra["scmin_abstract_steps"] = res.Steps
	r.Extra["exhaustive"] = true
	if len(res.Unrec) > 0 {
		r.Fail("F-scmin-recognised", cfg, "scMin stays inside the predicate abstraction on every class", pos, "scMin:unrecognised",
			fmt.Sprintf("%d+ classes left the abstraction (unrecognised shape, not a counter-example): %v", len(res.Unrec), res.Unrec))
	} else {
		r.OK("F-scmin-recognised", cfg, "scMin stays inside the predicate abstraction on every class", fmt.Sprintf("%d classes evaluated to a return", res.Classes))
	}
	if len(res.Mismatches) > 0 {
		first := res.Mismatches[0]
		r.Fail("F-scmin-exact", cfg, "scMin(s) <=> s < L on all 2^256 scalars", pos, "scMin:exact",
			fmt.Sprintf("%d of %d abstract classes disagree with S<L; first: %s", len(res.Mismatches), res.Classes, first))
	} else if len(res.Unrec) == 0 {
		r.OK("F-scmin-exact", cfg, "scMin(s) <=> s < L on all 2^256 scalars", fmt.Sprintf("verdict equals the oracle on all %d consistent classes (byte31 x word orders)", res.Classes))
	}
	// A: the order constant as written
	root := p.Pkg("")
	if n, err := lit.Var(root, "order"); err == nil {
		ints, err2 := n.Ints()
		ok := err2 == nil && len(ints) == 4
		if ok {
			for i := range ints {
				if ints[i].Cmp(lw[i]) != 0 {
					ok = false
				}
			}
		}
		r.Check(ok, "A-order", cfg, "package-level `order` spells L", ssau.Pos(p, n.Pos), "4 little-endian words equal L", fmt.Sprintf("order literal %v != L words", ints))
	} else {
		// the constant may have been renamed: F already fails if the compared constants are not L's words
		r.Info = append(r.Info, "variable `order` not found by name; F compares against L's words directly")
	}
	_ = big.NewInt
}

func checkC04(c *Ctx, r *rep.Report) {
	r.Explanation = "F: exhaustive evaluation of the scalar-admissibility predicate over a finite predicate abstraction of all 2^256 scalars (top byte x order of each 64-bit word relative to L) proves scMin(s) <=> s<L; A: the constant as written is L; G/B: every verifier mode gates on exactly this predicate."
	r.NotDecided = "how the admitted S is then used by the scalar arithmetic (C19)"
	r.Trust("soundness of the partition: byte 31 is the top byte of little-endian word 3; math/big")
	p, rl := c.mustLoad(r, "amd64-default")
	if p == nil {
		return
	}
	ruleScMinExact(r, p, rl)
	ruleScMinControl(r)
	// G/B: every verifier mode gates on exactly this predicate
	if fl := rootFlags(r, p, rl); fl != nil {
		paths := ruleVerifyCore(r, p, rl, fl, "G-verify")
		ruleUsesOnly(r, p, "G-S-consumers", "verifyCore", paths, "sig[32:64]", isRegion("P2", 32, 64), map[string]bool{"scMin": true, "modm.Expand": true}, throughOps)
		ruleNoPanic(r, p, rl)
		ruleVerifyWrappers(r, p, rl, fl)
		ruleBatchAll(c, r, p, rl, fl)
	}
	scalarLayer(c, r)
}
