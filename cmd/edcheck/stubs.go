package main

import (
	"verif/internal/load"
	"verif/internal/rep"
)

// stubs for rules built in later steps
func rulePurity(c *Ctx, r *rep.Report, cone string)                                          {}
func ruleBitOrigin(r *rep.Report, p *load.Program, pkg string)                               {}
