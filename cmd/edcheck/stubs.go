package main

import (
	"verif/internal/load"
	"verif/internal/rep"
	"verif/internal/roles"
)

// stubs for rules built in later steps
func rulePurity(c *Ctx, r *rep.Report, cone string)                                          {}
func ruleBatchAll(c *Ctx, r *rep.Report, p *load.Program, rl *roles.Roles, fl *flags)        {}
func ruleBitOrigin(r *rep.Report, p *load.Program, pkg string)                               {}
