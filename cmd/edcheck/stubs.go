package main

import (
	"verif/internal/load"
	"verif/internal/rep"
	"verif/internal/roles"
)

// stubs for rules built in later steps
func rulePanicSites(r *rep.Report, p *load.Program, rl *roles.Roles) {
	ruleIndexSites(r, p, rl)
	if p.Cfg.Name == "amd64-default" {
		ruleBounds(r, p, rl)
		ruleZeroScanGuard(r, p, rl)
	}
}
func ruleArithStructure(r *rep.Report, p *load.Program) { ruleUnrolledChains(r, p) }
func ruleExpandLengths(r *rep.Report, p *load.Program)  {} // part of ruleBitOrigin(modm)
