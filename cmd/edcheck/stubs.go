package main

import (
	"verif/internal/load"
	"verif/internal/rep"
	"verif/internal/roles"
)

// stubs for rules built in later steps
func ruleBitOrigin(r *rep.Report, p *load.Program, pkg string)                               {}
func rulePanicSites(r *rep.Report, p *load.Program, rl *roles.Roles)                        {}
func ruleArithStructure(r *rep.Report, p *load.Program)                                      {}
