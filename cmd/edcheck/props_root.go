package main

import (
	"strings"

	"verif/internal/load"
	"verif/internal/mem"
	"verif/internal/pt"
	"verif/internal/rep"
	"verif/internal/roles"
)

func init() {
	register("C01", "other", checkC01)
	register("C05", "other", checkC05)
	register("C07", "other", checkC07)
	register("C14", "other", checkC14)
}

// rootFlags runs the option plumbing rules and returns the flag values they establish.
func rootFlags(r *rep.Report, p *load.Program, rl *roles.Roles) *flags {
	fl := &flags{}
	ruleUnwrap(r, p, rl, fl)
	ruleCheckHash(r, p, rl, fl)
	if !fl.ok {
		return nil
	}
	return fl
}

func isRegion(leaf string, lo, hi int) func(*pt.Term) bool {
	want := sub(L(leaf), lo, hi).String()
	return func(t *pt.Term) bool { return t.String() == want }
}

func isLeaf(leaf string) func(*pt.Term) bool {
	return func(t *pt.Term) bool {
		if t.Op == leaf && len(t.Args) == 0 {
			return true
		}
		// any region of the leaf
		return (t.Op == "sub" || t.Op == "at") && len(t.Args) > 0 && t.Args[0].Op == leaf && len(t.Args[0].Args) == 0
	}
}

var throughOps = map[string]bool{"cat": true, "byte": true, "sub": true, "at": true, "and": true, "or": true, "xor": true}

// verifierRules are the rules shared by C01/C03/C05: decision structure of single verification and its wrappers.
func verifierRules(r *rep.Report, p *load.Program, rl *roles.Roles, fl *flags) {
	paths := ruleVerifyCore(r, p, rl, fl, "G-verify")
	ruleNoPanic(r, p, rl)
	ruleVerifyWrappers(r, p, rl, fl)
	// H message-independence: the message is only ever hashed
	ruleUsesOnly(r, p, "H-message-only-hashed", "verifyCore", paths, "the message", isLeaf("P1"), map[string]bool{"hash.Write": true, "hash.Sum": true}, throughOps)
	// the S half flows only into the admissibility test and the scalar expansion
	ruleUsesOnly(r, p, "G-S-consumers", "verifyCore", paths, "sig[32:64]", isRegion("P2", 32, 64), map[string]bool{"scMin": true, "modm.Expand": true}, throughOps)
	// the supplied encodings are hashed as given
	ruleUsesOnly(r, p, "H-hashed-as-given", "verifyCore", paths, "sig[0:32]", isRegion("P2", 0, 32),
		map[string]bool{"hash.Write": true, "hash.Sum": true, "ge25519.UnpackVartime": true, "smallOrder": true}, throughOps)
	// "decodes to a curve point": the decoder's own rejection structure (one rejection: neither root works)
	ruleDecode(r, p)
}

func checkC01(c *Ctx, r *rep.Report) {
	r.Explanation = "G: the decision structure of single verification (all control-flow paths of the verifier core, its no-panic wrapper and the two exported entry points) equals the documented guard set on every world (length classes x top-byte classes x truth of the opaque predicates), with no other rejection reason; S/H: the accepted value is CofactorEqual(P2E(DSM(UnpackNeg(pk), ModL(SHA512([dom2] R32 pk msg)), ModL(S32))), Unpack(R32)) over the bytes as supplied; F: the S<L test is exact; the small-order predicate and the cofactored comparison have the documented composition."
	r.NotDecided = "that the primitives (point decoding, scalar multiplication, field and scalar arithmetic) compute what their names say (C10, C16, C18, C19)"
	p, rl := c.mustLoad(r, "amd64-default")
	if p == nil {
		return
	}
	fl := rootFlags(r, p, rl)
	if fl == nil {
		return
	}
	verifierRules(r, p, rl, fl)
	ruleScMinExact(r, p, rl)
	ruleSmallOrder(r, p, rl)
	ruleWriteDom2(r, p, rl)
	scalarLayer(c, r)
}

func checkC05(c *Ctx, r *rep.Report) {
	r.Explanation = "G with the ZIP-215 flag as an atom: the flag appears only in the two conjunctions (!zip215 && smallOrder(X)) for X = key and X = R; with the flag set the accept condition is the ZIP-215 list; the truth table with the flag set dominates the one without and they differ only where a small-order atom is true. The same is checked for the batch fast path (B6) and the option plumbing passes opts.ZIP215Verify unchanged."
	r.NotDecided = "the primitives (decoding, scalar multiplication, arithmetic)"
	p, rl := c.mustLoad(r, "amd64-default")
	if p == nil {
		return
	}
	fl := rootFlags(r, p, rl)
	if fl == nil {
		return
	}
	verifierRules(r, p, rl, fl)
	ruleSmallOrder(r, p, rl)
	ruleZipFlagUses(r, p, rl)
	ruleBatchAll(c, r, p, rl, fl)
	ruleScMinExact(r, p, rl)
	// S ranges over all of [0, L) here (a small-order key makes R = [S]B valid for any S): the scalar layer must be exact on the top bits too
	scalarLayer(c, r)
}

func checkC07(c *Ctx, r *rep.Report) {
	r.Explanation = "F: the context-length partition {0},{1..255},{256..} and the hash-selector x digest-length table are exact in the option plumbing; H: the dom2 encoding is prefix || flag byte || exact length byte || context and is hashed first at every hash site iff the variant is not pure; A: flag constants; G: refusal surfaces (error from Sign, panic from VerifyWithOptions, error / false entry from VerifyBatch)."
	r.NotDecided = "that distinct transcripts cannot verify under each other (collision resistance of SHA-512)"
	p, rl := c.mustLoad(r, "amd64-default")
	if p == nil {
		return
	}
	fl := rootFlags(r, p, rl)
	if fl == nil {
		return
	}
	ruleWriteDom2(r, p, rl)
	ruleVerifyCore(r, p, rl, fl, "G-verify")
	ruleNoPanic(r, p, rl)
	ruleVerifyWrappers(r, p, rl, fl)
	ruleSignCore(r, p, rl, fl)
	ruleSignWrappers(r, p, rl, fl)
	ruleBatchAll(c, r, p, rl, fl)
}

func checkC14(c *Ctx, r *rep.Report) {
	r.Explanation = "S/G: GenerateKey passes the reader to exactly one io.ReadFull on a fresh 32-byte buffer, an error yields (nil,nil,err), success yields NewKeyFromSeed(seed) and its [32:64]; NewKeyFromSeed returns seed || Pack([clamp(SHA512(seed))]B); Public/Seed return the right halves; Equal is a comma-ok assertion to the receiver's own type followed by whole-slice equality; M3: the returned slices are rooted only in allocations made during the call (no aliasing of the key or the seed argument)."
	r.NotDecided = "determinism follows from purity (C02/C15)"
	p, rl := c.mustLoad(r, "amd64-default")
	if p == nil {
		return
	}
	ruleNewKeyFromSeed(r, p, rl)
	ruleGenerateKey(r, p, rl)
	ruleAccessors(r, p, rl)
	ruleEqual(r, p, rl)
	an := mem.New()
	ruleFreshness(r, p, an, map[string]bool{"PrivateKey.Public": true, "PrivateKey.Seed": true, "GenerateKey": true, "NewKeyFromSeed": true})
	ruleNoParamWrites(r, p, an)
}

// ruleZipFlagUses: every use of the ZIP-215 option field feeds the verifier core's flag parameter or a `!flag && smallOrder` guard.
func ruleZipFlagUses(r *rep.Report, p *load.Program, rl *roles.Roles) {
	// implemented with engine B (batch) — see rules_batch.go; here: referrer enumeration of the struct field
	zipFieldUses(r, p, rl)
	_ = strings.HasPrefix
}
