package main

import (
	"fmt"
	"go/types"

	"golang.org/x/tools/go/ssa"

	"verif/internal/load"
	"verif/internal/rep"
	"verif/internal/roles"
	"verif/internal/ssau"
)

// zipFieldUses enumerates every read of Options.ZIP215Verify in the module: each must either be passed as the
// verifier core's last argument or be the condition `!flag` guarding a smallOrder call (checked structurally:
// the loaded value's only uses are If conditions or call arguments of verifyCore). No store to the field may exist.
func zipFieldUses(r *rep.Report, p *load.Program, rl *roles.Roles) {
	cfg := p.Cfg.Name
	n := 0
	for _, fn := range ssau.AllFuncs(p) {
		for _, b := range fn.Blocks {
			for _, in := range b.Instrs {
				fa, ok := in.(*ssa.FieldAddr)
				if !ok {
					continue
				}
				st, ok := fa.X.Type().Underlying().(*types.Pointer).Elem().Underlying().(*types.Struct)
				if !ok || st.Field(fa.Field).Name() != "ZIP215Verify" {
					continue
				}
				for _, ref := range *fa.Referrers() {
					switch u := ref.(type) {
					case *ssa.Store:
						r.Fail("G-zip-uses", cfg, "the ZIP-215 option is never written", ssau.InstrPos(p, u), "zip:store:"+ssau.QName(fn), "store to Options.ZIP215Verify in "+ssau.QName(fn))
					case *ssa.UnOp:
						n++
						for _, use := range *u.Referrers() {
							okUse := false
							switch x := use.(type) {
							case *ssa.If:
								okUse = true // gate; which calls it gates is checked by G (verifyCore) and B6 (batch)
							case *ssa.Call:
								if x.Common().StaticCallee() == rl.VerifyCore && len(x.Common().Args) > 0 && x.Common().Args[len(x.Common().Args)-1] == u {
									okUse = true
								}
							case *ssa.DebugRef:
								okUse = true
							}
							if !okUse {
								r.Fail("G-zip-uses", cfg, "the ZIP-215 option only gates small-order checks or is passed to the verifier core", ssau.InstrPos(p, use), "zip:use:"+ssau.QName(fn), fmt.Sprintf("unexpected use of opts.ZIP215Verify in %s: %s", ssau.QName(fn), use.String()))
							}
						}
					}
				}
			}
		}
	}
	r.Check(n >= 2, "G-zip-uses", cfg, "reads of the ZIP-215 option are enumerated (verifier plumbing and batch fast path)", "", fmt.Sprintf("%d reads, all gate a branch or feed the verifier core's flag", n), fmt.Sprintf("only %d reads of Options.ZIP215Verify found (role has no instance)", n))
}
