package main

import (
	"fmt"
	"strings"

	"golang.org/x/tools/go/ssa"

	"verif/internal/engine/g"
	"verif/internal/load"
	"verif/internal/pt"
	"verif/internal/rep"
	"verif/internal/ssau"
)

// pathsOf enumerates the paths of fn, failing the report on engine errors or unmodelled constructs.
func pathsOf(r *rep.Report, p *load.Program, fn *ssa.Function, m *pt.Model, role string) []*pt.Path {
	cfg := p.Cfg.Name
	paths, err := pt.Enumerate(fn, m)
	if err != nil {
		r.Fail("path-engine", cfg, role+": paths enumerate", ssau.Pos(p, fn.Pos()), role+":paths", err.Error())
		return nil
	}
	var unrec []string
	for _, pa := range paths {
		pt.NormalisePath(pa)
		for _, u := range pa.Unrec {
			dup := false
			for _, v := range unrec {
				if v == u {
					dup = true
				}
			}
			if !dup {
				unrec = append(unrec, u)
			}
		}
	}
	if len(unrec) > 0 {
		r.Fail("path-engine", cfg, role+": every construct on every path is modelled", ssau.Pos(p, fn.Pos()), role+":unmodelled", "unmodelled constructs (unrecognised shape, not a counter-example): "+strings.Join(unrec, "; "))
		return paths
	}
	r.OK("path-engine", cfg, role+": every construct on every path is modelled", fmt.Sprintf("%d paths of %s", len(paths), ssau.QName(fn)))
	r.Count("paths", len(paths))
	return paths
}

// runG compares the decision structure of a role with its specification.
func runG(r *rep.Report, p *load.Program, rule, role string, fn *ssa.Function, paths []*pt.Path, worlds []g.World, expect func(w *g.World) g.Terminal) bool {
	cfg := p.Cfg.Name
	if paths == nil {
		return false
	}
	posOf := func(pa *pt.Path, ai int) string {
		if ai >= 0 && ai < len(pa.Atoms) {
			return ssau.Pos(p, pa.Atoms[ai].Pos)
		}
		if pa.ExitPos.IsValid() {
			return ssau.Pos(p, pa.ExitPos)
		}
		return ssau.Pos(p, fn.Pos())
	}
	res := g.Compare(paths, worlds, expect, posOf)
	r.Count("worlds", res.Worlds)
	r.Count("guard-atoms", len(res.Atoms))
	subj := fmt.Sprintf("%s: decision structure equals the specification", role)
	if len(res.Mismatches) == 0 {
		r.OK(rule, cfg, subj, fmt.Sprintf("%d worlds x %d paths, %d guard atoms %v: every world reaches exactly the specified terminal", res.Worlds, res.Paths, len(res.Atoms), res.Atoms))
		return true
	}
	for i, m := range res.Mismatches {
		if i >= 6 {
			break
		}
		switch m.Kind {
		case "unrecognised":
			r.Fail(rule, cfg, role+": every guard is a recognised atom", m.Pos, role+":guard:"+m.Atom, "unrecognised guard atom "+m.Atom+" (unrecognised shape, or a rejection reason outside the documented list)")
		case "out-of-range":
			r.Fail(rule, cfg, role+": no guard indexes past a checked length", m.Pos, role+":oob:"+m.Atom, m.Got+" in world {"+m.World+"}")
		default:
			r.Fail(rule, cfg, subj, m.Pos, role+":"+m.Kind+":"+m.Expected, fmt.Sprintf("in world {%s}: specification says `%s`, code does `%s`", m.World, m.Expected, m.Got))
		}
	}
	return false
}
