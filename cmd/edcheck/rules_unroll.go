package main

import (
	"fmt"
	"math/big"
	"os"
	"strings"

	"golang.org/x/tools/go/ssa"

	"verif/internal/engine/u"
	"verif/internal/lit"
	"verif/internal/load"
	"verif/internal/pt"
	"verif/internal/rep"
	"verif/internal/ssau"
)

// chainSpec: a function whose out-parameter is written limb by limb by a manually unrolled chain.
type chainSpec struct {
	pkg, name string
	out       string
	arrays    []string // chain arrays (nil: every parameter)
	// lonelyOK lists interior stages that are legitimately unlike both neighbours, per layout ("64"/"32"), with the reason.
	lonelyOK map[string]map[int]string
	optional bool // the function does not exist in every configuration
	allSame  bool // every stage, including the first and the last, has the same shape
	lastLike bool // the last stage has the interior shape up to its shift amounts (the top limb is narrower)
	carryW   bool // the carry handed to stage i is the previous stage's sum shifted right by that limb's width
}

var chainSpecs = []chainSpec{
	{pkg: "internal/curve25519", name: "Copy", out: "P0", allSame: true},
	{pkg: "internal/curve25519", name: "Add", out: "P0", allSame: true},
	{pkg: "internal/curve25519", name: "AddAfterBasic", out: "P0", carryW: true},
	{pkg: "internal/curve25519", name: "AddReduce", out: "P0", carryW: true},
	{pkg: "internal/curve25519", name: "Sub", out: "P0", carryW: true, lonelyOK: map[string]map[int]string{"32": {4: "32-bit Sub carries only limbs 0..3 (partial carry, as upstream): limb 4 receives the last carry but is not masked"}}},
	{pkg: "internal/curve25519", name: "SubAfterBasic", out: "P0", carryW: true},
	{pkg: "internal/curve25519", name: "SubReduce", out: "P0", carryW: true},
	{pkg: "internal/curve25519", name: "Neg", out: "P0", carryW: true},
	{pkg: "internal/curve25519", name: "SwapConditional", out: "P0", allSame: true},
	{pkg: "internal/curve25519", name: "SwapConditional", out: "P1", allSame: true},
	{pkg: "internal/modm", name: "reduce", out: "P0", lastLike: true},
	{pkg: "internal/modm", name: "Add", out: "P0", carryW: true},
	{pkg: "internal/modm", name: "barrettReduce", out: "P0", arrays: []string{"P0", "P2"}, lastLike: true},
	{pkg: "internal/modm", name: "SubVartime", out: "P0"},
	{pkg: "internal/ge25519", name: "moveConditionalBytes64", out: "P0", optional: true, allSame: true},
	{pkg: "internal/ge25519", name: "moveConditionalBytes32", out: "P0", optional: true, allSame: true},
}

// ruleUnrolledChains (U): no interior stage of an unrolled limb chain is unlike both of its neighbours.
func ruleUnrolledChains(r *rep.Report, p *load.Program) {
	cfg := p.Cfg.Name
	layout := "64"
	if p.Cfg.Limb32 {
		layout = "32"
	}
	n := 0
	for _, cs := range chainSpecs {
		fn := ssau.Func(p, cs.pkg, cs.name)
		if fn == nil {
			if !cs.optional {
				r.Fail("U-uniform-stages", cfg, cs.pkg+"."+cs.name+" exists", "", "chain:"+cs.name, "function not found")
			}
			continue
		}
		// a pure delegate (`func AddAfterBasic(out, a, b) { Add(out, a, b) }`) is analysed through its target
		for hop := 0; hop < 3; hop++ {
			if tgt := delegateOf(fn); tgt != nil {
				fn = tgt
			}
		}
		paths, err := pt.Enumerate(fn, geModel())
		if err != nil || len(paths) == 0 {
			r.Fail("U-uniform-stages", cfg, cs.name+": paths enumerate", ssau.Pos(p, fn.Pos()), "chain:paths:"+cs.name, fmt.Sprint(err))
			continue
		}
		var arrs map[string]bool
		if cs.arrays != nil {
			arrs = map[string]bool{}
			for _, a := range cs.arrays {
				arrs[a] = true
			}
		}
		for pi, pa := range paths {
			fin, ok := pa.Finals[cs.out]
			if !ok {
				r.Fail("U-uniform-stages", cfg, cs.name+": writes its out-parameter "+cs.out, ssau.Pos(p, fn.Pos()), "chain:nowrite:"+cs.name+cs.out, "out-parameter not written")
				continue
			}
			stages, _, ok := u.Stages(fin)
			if !ok && cs.allSame && len(fin.Args) == 0 && strings.HasPrefix(fin.Op, "P") {
				// a plain array assignment (`*out = *in`) copies every limb alike
				n++
				r.OK("U-uniform-stages", cfg, fmt.Sprintf("%s(%s): whole-array assignment", cs.name, cs.out), "out-parameter := "+fin.Op)
				continue
			}
			if !ok {
				r.Fail("U-uniform-stages", cfg, cs.name+": out-parameter is written element by element at constant indices", ssau.Pos(p, fn.Pos()), "chain:shape:"+cs.name+cs.out, "final content is "+trunc(fin.String(), 200)+" (unrecognised shape)")
				continue
			}
			if len(stages) < 3 {
				continue
			}
			pat, sigs := u.Classes(stages, arrs)
			if os.Getenv("EDCHECK_CLASSES") != "" {
				fmt.Printf("CLASSES %s %s.%s(%s) path %d: %s\n", cfg, cs.pkg, cs.name, cs.out, pi, pat)
			}
			subj := fmt.Sprintf("%s(%s): no interior limb stage is unlike both neighbours", cs.name, cs.out)
			if len(paths) > 1 {
				subj += fmt.Sprintf(" [path %d]", pi)
			}
			bad := 0
			lonely := u.Lonely(pat)
			if cs.allSame {
				lonely = nil
				for d := range pat {
					if pat[d] != 'A' {
						lonely = append(lonely, d)
					}
				}
				if len(pat) > 1 && pat[0] != pat[1] { // the first stage is the odd one out
					lonely = []int{0}
				}
			}
			for _, d := range lonely {
				if why, ok := cs.lonelyOK[layout][d]; ok {
					r.Assume(fmt.Sprintf("%s stage %d (%s-bit layout) is a documented singleton: %s", cs.name, d, layout, why))
					continue
				}
				bad++
				near := sigs[0]
				if d > 0 {
					near = sigs[d-1]
				} else if len(sigs) > 1 {
					near = sigs[1]
				}
				r.Fail("U-uniform-stages", cfg, subj, ssau.Pos(p, fn.Pos()), fmt.Sprintf("chain:%s:%s:stage%d", cs.name, cs.out, d),
					fmt.Sprintf("stage %d of %s (pattern %s) deviates from its siblings: %s  vs neighbour  %s", d, cs.name, pat, trunc(sigs[d], 300), trunc(near, 300)))
			}
			// the carry/borrow handed from stage to stage has one shape (stage 1 receives the boundary form)
			links, lshifts := u.LinksShifts(stages, arrs)
			if cs.carryW {
				for i := 1; i < len(stages); i++ {
					if lshifts[i] < 0 {
						continue // this layout's variant carries nothing into stage i
					}
					want := limbWidth(p, cs.pkg, i-1)
					if lshifts[i] != want {
						bad++
						r.Fail("U-uniform-stages", cfg, cs.name+": the carry into stage i is the previous sum shifted by that limb's width", ssau.Pos(p, fn.Pos()), fmt.Sprintf("chain:%s:%s:carryw%d", cs.name, cs.out, i),
							fmt.Sprintf("stage %d of %s receives a carry shifted by %d, limb %d is %d bits wide", i, cs.name, lshifts[i], i-1, want))
					}
				}
			}
			if len(stages) >= 4 {
				count := map[string]int{}
				for i := 2; i < len(links); i++ {
					if links[i] != "" {
						count[links[i]]++
					}
				}
				ref, best := "", 0
				for k, c := range count {
					if c > best || (c == best && k < ref) {
						ref, best = k, c
					}
				}
				if len(count) > 1 {
					for i := 2; i < len(links); i++ {
						if links[i] != "" && (links[i] != ref || best == 1) {
							bad++
							r.Fail("U-uniform-stages", cfg, cs.name+": the carry/borrow handed from stage to stage has one shape", ssau.Pos(p, fn.Pos()), fmt.Sprintf("chain:%s:%s:link%d", cs.name, cs.out, i),
								fmt.Sprintf("stage %d of %s receives  %s  from the stages below, its siblings receive  %s", i, cs.name, trunc(links[i], 300), trunc(ref, 300)))
						}
					}
				}
			}
			if cs.lastLike && len(stages) >= 4 {
				np, nsigs := u.ClassesNoShift(stages, arrs)
				last := len(np) - 1
				if np[last] != np[last-1] {
					bad++
					r.Fail("U-uniform-stages", cfg, cs.name+": the top-limb stage has the interior shape up to its shift amounts", ssau.Pos(p, fn.Pos()), fmt.Sprintf("chain:%s:%s:last", cs.name, cs.out),
						fmt.Sprintf("last stage of %s (pattern %s ignoring shifts) deviates: %s  vs  %s", cs.name, np, trunc(nsigs[last], 300), trunc(nsigs[last-1], 300)))
				}
			}
			if bad == 0 {
				n++
				r.OK("U-uniform-stages", cfg, subj, fmt.Sprintf("%d stages, class pattern %s", len(stages), pat))
			}
		}
	}
	r.Check(n >= 12, "U-uniform-stages", cfg, "unrolled chains enumerated", "", fmt.Sprintf("%d chain instances uniform", n), fmt.Sprintf("only %d uniform chains found", n))
	// per-limb constants and borrow widths of reduce / barrettReduce: decided exactly (and independently of how the
	// chains are spelled) by the polynomial identities of engine X
	ruleExactModm(r, p)
}

// ruleReduceConstants: in the conditional subtraction of L and in the Barrett tail, stage i subtracts limb i of the modulus
// (resp. of r2) and the top stage compensates the borrow at exactly the top limb's width.
func ruleReduceConstants(r *rep.Report, p *load.Program) {
	cfg := p.Cfg.Name
	mpkg := p.Pkg("internal/modm")
	bplv, ok1 := lit.ConstInt(mpkg, "BitsPerLimb")
	lsv, ok2 := lit.ConstInt(mpkg, "LimbSize")
	if !ok1 || !ok2 {
		return
	}
	bpl, n := int(bplv.Int64()), int(lsv.Int64())
	for _, c := range []struct {
		name  string
		total int
		arrs  map[string]bool
	}{{"reduce", 256, nil}, {"barrettReduce", 264, map[string]bool{"P0": true, "P2": true}}} {
		fn := ssau.Func(p, "internal/modm", c.name)
		if fn == nil {
			continue
		}
		paths, err := pt.Enumerate(fn, geModel())
		if err != nil || len(paths) != 1 {
			continue
		}
		stages, _, ok := u.Stages(paths[0].Finals["P0"])
		if !ok || len(stages) != n {
			r.Fail("U-reduce-constants", cfg, c.name+": one stage per limb", ssau.Pos(p, fn.Pos()), "reduce:stages:"+c.name, fmt.Sprintf("%d stages for %d limbs", len(stages), n))
			continue
		}
		okAll := true
		for i := 0; i < n; i++ {
			wantShift := bpl
			if i == n-1 {
				wantShift = c.total - bpl*(n-1)
			}
			sh := u.ShiftOf(stages, i)
			has := false
			for _, s := range sh {
				if s == wantShift {
					has = true
				}
			}
			if !has {
				okAll = false
				r.Fail("U-reduce-constants", cfg, fmt.Sprintf("%s: stage %d compensates a borrow with 2^%d (the limb's width)", c.name, i, wantShift), ssau.Pos(p, fn.Pos()), fmt.Sprintf("reduce:shift:%s:%d", c.name, i),
					fmt.Sprintf("stage %d of %s shifts the borrow by %v, want %d", i, c.name, sh, wantShift))
			}
			if c.name == "reduce" {
				mi, _ := lit.ConstInt(mpkg, fmt.Sprintf("m%d", i))
				found := false
				var big_ []int
				for _, k := range u.OwnConsts(stages, i, c.arrs) {
					if mi != nil && big.NewInt(int64(k)).Cmp(mi) == 0 {
						found = true
					}
					if k > 64 {
						big_ = append(big_, k)
					}
				}
				extra := false
				for _, k := range big_ {
					if mi == nil || big.NewInt(int64(k)).Cmp(mi) != 0 {
						// masks (2^bpl-1) do not occur in reduce; any other large constant is a foreign modulus limb
						extra = true
					}
				}
				if !found || extra {
					okAll = false
					r.Fail("U-reduce-constants", cfg, fmt.Sprintf("reduce: stage %d subtracts limb %d of L", i, i), ssau.Pos(p, fn.Pos()), fmt.Sprintf("reduce:const:%d", i),
						fmt.Sprintf("stage %d uses constants %v, want exactly m%d = %v", i, big_, i, mi))
				}
			}
		}
		if okAll {
			r.OK("U-reduce-constants", cfg, c.name+": per-limb constants and borrow widths", fmt.Sprintf("%d stages; top-limb width %d", n, c.total-bpl*(n-1)))
		}
	}
}

func trunc(s string, n int) string {
	if len(s) > n {
		return s[:n] + "…"
	}
	return s
}

var _ = strings.HasPrefix

// limbWidth returns the nominal width of limb i in the given package's layout.
func limbWidth(p *load.Program, pkg string, i int) int {
	if pkg == "internal/modm" {
		v, _ := lit.ConstInt(p.Pkg("internal/modm"), "BitsPerLimb")
		if v != nil {
			return int(v.Int64())
		}
		return 0
	}
	if fieldLimbs(p) == 5 {
		return 51
	}
	return 26 - i%2
}

// delegateOf returns the module function fn merely forwards its parameters to (nil if fn does anything else).
func delegateOf(fn *ssa.Function) *ssa.Function {
	if len(fn.Blocks) != 1 {
		return nil
	}
	var tgt *ssa.Function
	for _, in := range fn.Blocks[0].Instrs {
		switch x := in.(type) {
		case *ssa.DebugRef, *ssa.Return:
		case *ssa.Call:
			if tgt != nil {
				return nil
			}
			c := x.Common().StaticCallee()
			if c == nil || !ssau.InModule(c) || len(x.Common().Args) != len(fn.Params) {
				return nil
			}
			for i, a := range x.Common().Args {
				if a != fn.Params[i] {
					return nil
				}
			}
			tgt = c
		default:
			return nil
		}
	}
	return tgt
}
