package main

import (
	"fmt"
	"go/types"
	"math/big"

	"verif/internal/engine/a"
	"verif/internal/lit"
	"verif/internal/load"
	"verif/internal/rep"
	"verif/internal/ssau"
)

func fieldLimbs(p *load.Program) int {
	pkg := p.Pkg("internal/curve25519")
	obj := pkg.Types.Scope().Lookup("Bignum25519")
	if obj == nil {
		return 0
	}
	if arr, ok := obj.Type().Underlying().(*types.Array); ok {
		return int(arr.Len())
	}
	return 0
}

func felem(n lit.Node, weights []int) (*big.Int, error) {
	ints, err := n.Ints()
	if err != nil || len(ints) != len(weights) {
		return nil, fmt.Errorf("field element literal has %d limbs, want %d", len(ints), len(weights))
	}
	return new(big.Int).Mod(a.FromLimbs(ints, weights), a.P), nil
}

// ruleFieldConstants (A): bias constants are 2p/4p, masks are limb masks, curve constants and base point are right.
func ruleFieldConstants(r *rep.Report, p *load.Program) {
	cfg := p.Cfg.Name
	n := fieldLimbs(p)
	w, err := a.FieldWeights(n)
	if err != nil {
		r.Fail("A-field-constants", cfg, "field layout is 5x51 or 10x25.5", "", "field:layout", err.Error())
		return
	}
	cpkg := p.Pkg("internal/curve25519")
	ci := func(name string) *big.Int {
		v, ok := lit.ConstInt(cpkg, name)
		if !ok {
			r.Fail("A-field-constants", cfg, "constant "+name+" exists", "", "field:const:"+name, "constant not found in internal/curve25519")
			return big.NewInt(0)
		}
		return v
	}
	var two, four []*big.Int
	if n == 5 {
		two = []*big.Int{ci("twoP0"), ci("twoP1234"), ci("twoP1234"), ci("twoP1234"), ci("twoP1234")}
		four = []*big.Int{ci("fourP0"), ci("fourP1234"), ci("fourP1234"), ci("fourP1234"), ci("fourP1234")}
		r.Check(ci("reduceMask51").Cmp(big.NewInt(1<<51-1)) == 0, "A-field-constants", cfg, "reduceMask51 = 2^51-1", "", "ok", "reduceMask51 is not 2^51-1")
	} else {
		o, e := "13579", "2468"
		two = []*big.Int{ci("twoP0"), ci("twoP" + o), ci("twoP" + e), ci("twoP" + o), ci("twoP" + e), ci("twoP" + o), ci("twoP" + e), ci("twoP" + o), ci("twoP" + e), ci("twoP" + o)}
		four = []*big.Int{ci("fourP0"), ci("fourP" + o), ci("fourP" + e), ci("fourP" + o), ci("fourP" + e), ci("fourP" + o), ci("fourP" + e), ci("fourP" + o), ci("fourP" + e), ci("fourP" + o)}
		r.Check(ci("reduceMask25").Cmp(big.NewInt(1<<25-1)) == 0 && ci("reduceMask26").Cmp(big.NewInt(1<<26-1)) == 0, "A-field-constants", cfg, "reduceMask25/26 = 2^25-1 / 2^26-1", "", "ok", "limb masks wrong")
	}
	twoP := new(big.Int).Lsh(a.P, 1)
	fourP := new(big.Int).Lsh(a.P, 2)
	r.Check(a.FromLimbs(two, w).Cmp(twoP) == 0, "A-field-constants", cfg, "the twoP bias limbs sum to 2p", "", "exact", fmt.Sprintf("twoP limbs denote %s, want 2p", a.FromLimbs(two, w).Text(16)))
	r.Check(a.FromLimbs(four, w).Cmp(fourP) == 0, "A-field-constants", cfg, "the fourP bias limbs sum to 4p", "", "exact", fmt.Sprintf("fourP limbs denote %s, want 4p", a.FromLimbs(four, w).Text(16)))
	// every bias limb dominates a reduced limb of that position
	okDom := true
	for i := range w {
		width := 51
		if n == 10 {
			width = 26 - i%2
		}
		max := new(big.Int).Sub(new(big.Int).Lsh(big.NewInt(1), uint(width)), big.NewInt(1))
		if two[i].Cmp(max) < 0 {
			okDom = false
		}
	}
	r.Check(okDom, "A-field-constants", cfg, "every 2p bias limb is >= the largest reduced limb of its position (a + 2p - b cannot borrow for reduced b)", "", "ok", "a 2p bias limb is smaller than a reduced limb")

	gpkg := p.Pkg("internal/ge25519")
	get := func(name string) (*big.Int, bool) {
		node, err := lit.Var(gpkg, name)
		if err != nil {
			r.Fail("A-curve-constants", cfg, "variable "+name+" exists", "", "curve:var:"+name, err.Error())
			return nil, false
		}
		v, err := felem(node, w)
		if err != nil {
			r.Fail("A-curve-constants", cfg, name+" is a field element literal", ssau.Pos(p, node.Pos), "curve:lit:"+name, err.Error())
			return nil, false
		}
		return v, true
	}
	if v, ok := get("ecd"); ok {
		r.Check(v.Cmp(a.D) == 0, "A-curve-constants", cfg, "ecd = d = -121665/121666", "", "exact", "ecd literal denotes "+v.Text(16))
	}
	if v, ok := get("ec2d"); ok {
		want := new(big.Int).Mod(new(big.Int).Lsh(a.D, 1), a.P)
		r.Check(v.Cmp(want) == 0, "A-curve-constants", cfg, "ec2d = 2d", "", "exact", "ec2d literal denotes "+v.Text(16))
	}
	if v, ok := get("sqrtNeg1"); ok {
		sq := new(big.Int).Mod(new(big.Int).Mul(v, v), a.P)
		r.Check(sq.Cmp(new(big.Int).Sub(a.P, big.NewInt(1))) == 0, "A-curve-constants", cfg, "sqrtNeg1^2 = -1", "", "exact", "sqrtNeg1 squared is "+sq.Text(16))
	}
	if node, err := lit.Var(gpkg, "Basepoint"); err == nil && len(node.List) == 4 {
		var c [4]*big.Int
		okc := true
		for i := 0; i < 4; i++ {
			v, err := felem(node.List[i], w)
			if err != nil {
				okc = false
				break
			}
			c[i] = v
		}
		xy := new(big.Int).Mod(new(big.Int).Mul(a.Bx, a.By), a.P)
		okc = okc && c[0].Cmp(a.Bx) == 0 && c[1].Cmp(a.By) == 0 && c[2].Cmp(big.NewInt(1)) == 0 && c[3].Cmp(xy) == 0
		r.Check(okc, "A-curve-constants", cfg, "Basepoint = (x_B, 4/5, 1, x_B*y_B) with x_B even", ssau.Pos(p, node.Pos), "exact", "Basepoint literal is not the RFC 8032 base point in extended coordinates")
	} else {
		r.Fail("A-curve-constants", cfg, "Basepoint literal readable", "", "curve:var:Basepoint", "cannot read Basepoint")
	}
}

// ruleTables (A): both precomputed tables are exactly the documented multiples of B.
func ruleTables(r *rep.Report, p *load.Program) {
	cfg := p.Cfg.Name
	n := fieldLimbs(p)
	w, err := a.FieldWeights(n)
	if err != nil {
		return
	}
	gpkg := p.Pkg("internal/ge25519")
	// sliding multiples
	if node, err := lit.Var(gpkg, "nielsSlidingMultiples"); err != nil {
		r.Fail("A-tables", cfg, "nielsSlidingMultiples readable", "", "table:sliding", err.Error())
	} else {
		bad := 0
		first := ""
		b2 := a.Add(a.B(), a.B())
		cur := a.B()
		for i, e := range node.List {
			want := a.Niels(cur, true)
			for k := 0; k < 3 && k < len(e.List); k++ {
				v, err := felem(e.List[k], w)
				if err != nil || v.Cmp(want[k]) != 0 {
					bad++
					if first == "" {
						first = fmt.Sprintf("entry %d component %d at %s", i, k, ssau.Pos(p, e.Pos))
					}
				}
			}
			cur = a.Add(cur, b2)
		}
		r.Check(bad == 0 && len(node.List) == 32, "A-tables", cfg, "nielsSlidingMultiples[i] = (2i+1)B as (y-x, y+x, 2dxy), 32 entries", ssau.Pos(p, node.Pos),
			"32 entries recomputed with independent big-integer arithmetic", fmt.Sprintf("%d components differ (first: %s); entries=%d", bad, first, len(node.List)))
		r.Count("table-entries", len(node.List))
	}
	if node, err := lit.Var(gpkg, "NielsBaseMultiples"); err != nil {
		r.Fail("A-tables", cfg, "NielsBaseMultiples readable", "", "table:base", err.Error())
	} else {
		bad := 0
		first := ""
		base := a.B()
		for pos := 0; pos < 32 && pos*8+7 < len(node.List); pos++ {
			cur := base
			for j := 0; j < 8; j++ {
				row := node.List[pos*8+j]
				want := a.Niels(cur, pos >= 1)
				bytes, err := row.Ints()
				if err != nil || len(bytes) != 96 {
					bad++
					continue
				}
				for k := 0; k < 3; k++ {
					v := a.FromBytesLE(bytes[32*k : 32*k+32])
					if v.Cmp(want[k]) != 0 {
						bad++
						if first == "" {
							first = fmt.Sprintf("row %d (pos %d, multiple %d) component %d at %s", pos*8+j, pos, j+1, k, ssau.Pos(p, row.Pos))
						}
					}
				}
				cur = a.Add(cur, base)
			}
			for k := 0; k < 8; k++ {
				base = a.Add(base, base)
			}
		}
		r.Check(bad == 0 && len(node.List) == 256, "A-tables", cfg, "NielsBaseMultiples[8*pos+j] = (j+1)*256^pos*B packed canonically as (y-x, y+x, t), t = 2xy for pos 0 and 2dxy otherwise", ssau.Pos(p, node.Pos),
			"256 rows x 3 components recomputed with independent big-integer arithmetic", fmt.Sprintf("%d components differ (first: %s); rows=%d", bad, first, len(node.List)))
		r.Count("table-entries", len(node.List))
	}
}

// ruleScalarConstants (A): m = L, mu = floor(2^512/L), layout constants.
func ruleScalarConstants(r *rep.Report, p *load.Program) {
	cfg := p.Cfg.Name
	mpkg := p.Pkg("internal/modm")
	bpl, ok1 := lit.ConstInt(mpkg, "BitsPerLimb")
	ls, ok2 := lit.ConstInt(mpkg, "LimbSize")
	if !ok1 || !ok2 {
		r.Fail("A-scalar-constants", cfg, "BitsPerLimb / LimbSize exist", "", "modm:layout", "layout constants not found")
		return
	}
	b, n := int(bpl.Int64()), int(ls.Int64())
	r.Check(b*(n-1) < 253 && 253 <= b*n && b*n >= 256-8, "K3-layout", cfg, "BitsPerLimb*(LimbSize-1) < 253 <= BitsPerLimb*LimbSize", "", fmt.Sprintf("%d x %d", n, b), fmt.Sprintf("inconsistent scalar layout %d x %d bits", n, b))
	weights := make([]int, n)
	for i := range weights {
		weights[i] = i * b
	}
	read := func(prefix string) []*big.Int {
		var out []*big.Int
		for i := 0; i < n; i++ {
			v, ok := lit.ConstInt(mpkg, fmt.Sprintf("%s%d", prefix, i))
			if !ok {
				return nil
			}
			out = append(out, v)
		}
		return out
	}
	m, mu := read("m"), read("mu")
	r.Check(m != nil && a.FromLimbs(m, weights).Cmp(a.L) == 0, "A-scalar-constants", cfg, "the modulus limbs m0.. spell L", "", "exact", "m limbs do not denote L")
	r.Check(mu != nil && a.FromLimbs(mu, weights).Cmp(a.Mu()) == 0, "A-scalar-constants", cfg, "the Barrett constant limbs mu0.. spell floor(2^512/L)", "", "exact", "mu limbs do not denote floor(2^512/L)")
	okLimbs := m != nil && mu != nil
	if okLimbs {
		lim := new(big.Int).Lsh(big.NewInt(1), uint(b))
		for i := 0; i < n; i++ {
			if m[i].Cmp(lim) >= 0 || mu[i].Cmp(lim) >= 0 {
				okLimbs = false
			}
		}
	}
	r.Check(okLimbs, "A-scalar-constants", cfg, "every m/mu limb fits BitsPerLimb bits", "", "ok", "a limb of m or mu exceeds BitsPerLimb bits")
	root := p.Pkg("")
	if v, ok := lit.ConstInt(root, "limb128bits"); ok {
		r.Check(int(v.Int64()) == (128+b-1)/b, "K3-layout", cfg, "limb128bits = ceil(128/BitsPerLimb)", "", fmt.Sprint(v), fmt.Sprintf("limb128bits = %s for %d-bit limbs", v, b))
	}
	for name, want := range map[string]int64{"PublicKeySize": 32, "PrivateKeySize": 64, "SignatureSize": 64, "SeedSize": 32, "ContextMaxSize": 255} {
		v, ok := lit.ConstInt(root, name)
		r.Check(ok && v.Int64() == want, "A-size-constants", cfg, fmt.Sprintf("%s = %d", name, want), "", "ok", fmt.Sprintf("%s = %v, want %d", name, v, want))
	}
	mx, ok3 := lit.ConstInt(root, "maxBatchSize")
	hp, ok4 := lit.ConstInt(root, "heapBatchSize")
	mn, ok5 := lit.ConstInt(root, "minBatchSize")
	if ok3 && ok4 && ok5 {
		r.Check(hp.Int64() == 2*mx.Int64()+1 && mn.Int64() >= 3 && mx.Int64() >= mn.Int64(), "A-size-constants", cfg, "heapBatchSize = 2*maxBatchSize+1, minBatchSize >= 3", "", fmt.Sprintf("min=%s max=%s heap=%s", mn, mx, hp),
			fmt.Sprintf("batch constants inconsistent: min=%s max=%s heap=%s", mn, mx, hp))
	}
	// x25519 base point
	if node, err := lit.Var(p.Pkg("extra/x25519"), "basePoint"); err == nil {
		ints, _ := node.Ints()
		r.Check(len(ints) == 32 && a.FromBytesLE(ints).Cmp(big.NewInt(9)) == 0, "A-size-constants", cfg, "x25519 base point u = 9", ssau.Pos(p, node.Pos), "ok", "x25519 basePoint literal is not 9")
	}
}
