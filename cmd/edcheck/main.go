// edcheck: static analysis of oasislabs/ed25519 against the given properties.
package main

import (
	"encoding/json"
	"flag"
	"fmt"
	"os"
	"runtime/debug"
	"sort"
	"time"
	"verif/internal/absint"

	"verif/internal/rep"
)

type propCheck struct {
	level string
	run   func(c *Ctx, r *rep.Report)
}

var registry = map[string]propCheck{}

func register(id, level string, f func(c *Ctx, r *rep.Report)) { registry[id] = propCheck{level, f} }

func runProp(id, tier string) (code int) {
	pc, ok := registry[id]
	if !ok {
		fmt.Fprintf(os.Stderr, "unknown property %s\n", id)
		return 2
	}
	r := rep.New(id, tier, pc.level)
	defer func() {
		if e := recover(); e != nil {
			r.Fail("checker-panic", "", "the checker itself must not panic", "", "checker-panic", fmt.Sprintf("%v\n%s", e, debug.Stack()))
			code = r.Finish()
		}
	}()
	// fail closed on non-termination: a change to /repo that sends an analysis into a (practically) endless exploration
	// must surface as a violation, not as a hang. The budget is far above the slowest check on the unchanged tree.
	budget := 12 * time.Minute
	if tier == "thorough" {
		budget = 45 * time.Minute
	}
	done := make(chan struct{})
	go func() {
		select {
		case <-done:
		case <-time.After(budget):
			r.Fail("checker-budget", "", "the analysis terminates within its time budget", "", "checker-budget", fmt.Sprintf("the checks of %s did not terminate within %v on this tree (unrecognised shape: an analysis does not converge); reported as a violation rather than left hanging", id, budget))
			os.Exit(r.Finish())
		}
	}()
	c := newCtx(tier)
	pc.run(c, r)
	close(done)
	code = r.Finish()
	absint.ResetGlobals()
	debug.FreeOSMemory()
	return code
}

func main() {
	prop := flag.String("prop", "", "property id (C01..C20) or 'all'")
	tier := flag.String("tier", "quick", "quick|thorough")
	replay := flag.String("replay", "", "replay file")
	dump := flag.String("dump", "", "debug: dump paths of pkg:Func")
	regions := flag.String("regions", "", "debug: dump loop regions of Func")
	dumpCfg := flag.String("cfg", "amd64-default", "configuration for -dump")
	flag.Parse()
	if env := os.Getenv("VERIF_TIER"); env != "" && *tier == "" {
		*tier = env
	}
	if *regions != "" {
		dumpRegions(*regions, *dumpCfg)
		return
	}
	if *dump != "" {
		dumpPaths(*dump, *dumpCfg)
		return
	}
	if *replay != "" {
		b, err := os.ReadFile(*replay)
		if err != nil {
			fmt.Fprintln(os.Stderr, err)
			os.Exit(2)
		}
		var m struct {
			Property string `json:"property"`
			Tier     string `json:"tier"`
		}
		_ = json.Unmarshal(b, &m)
		fmt.Printf("replaying %s (re-runs the rules of %s at tier %s on /repo's current tree)\n%s\n", *replay, m.Property, m.Tier, b)
		os.Exit(runProp(m.Property, m.Tier))
	}
	if *prop == "all" {
		var ids []string
		for k := range registry {
			ids = append(ids, k)
		}
		sort.Strings(ids)
		rc := 0
		for _, id := range ids {
			if c := runProp(id, *tier); c != 0 {
				rc = c
			}
		}
		os.Exit(rc)
	}
	if *prop == "" {
		flag.Usage()
		os.Exit(2)
	}
	os.Exit(runProp(*prop, *tier))
}
