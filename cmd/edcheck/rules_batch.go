package main

import (
	"fmt"
	"go/token"
	"go/types"
	"os"
	"sort"
	"strings"

	"golang.org/x/tools/go/ssa"

	"verif/internal/engine/b"
	"verif/internal/engine/g"
	"verif/internal/load"
	"verif/internal/pt"
	"verif/internal/rep"
	"verif/internal/roles"
	"verif/internal/ssau"
)

// batchInfo is the resolved structure of the batch verifier.
type batchInfo struct {
	p                          *load.Program
	rl                         *roles.Roles
	fn                         *ssa.Function
	loops                      []*b.Loop
	chunk                      *b.Loop
	inner                      map[string]*b.Loop // by role
	rem                        *b.Loop
	initL                      *b.Loop
	numPhi, offPhi             *ssa.Phi
	bs                         ssa.Value
	names                      map[string]string // leaf renaming for canonical keys
	okCell, retCell, validCell *ssa.Alloc
	validIsN                   bool // the validity vector is make([]bool, len(publicKeys)), assigned once
	model                      *pt.Model
}

func constInt(v ssa.Value) (int64, bool) {
	c, ok := v.(*ssa.Const)
	if !ok || c.Value == nil {
		return 0, false
	}
	return c.Int64(), true
}

// rpath is a region path with canonical (index-normalised) atoms and events.
type rpath struct {
	pa     *pt.Path
	atoms  []pt.AtomVal
	events []pt.Event
	stop   string // back | exit | break
	class  string
}

func (bi *batchInfo) pos(p token.Pos) string { return ssau.Pos(bi.p, p) }

// resolveBatch identifies loops, phis and cells of VerifyBatch by role.
func resolveBatch(r *rep.Report, p *load.Program, rl *roles.Roles) *batchInfo {
	cfg := p.Cfg.Name
	fn := rl.VerifyBatch
	fail := func(what, msg string) *batchInfo {
		r.Fail("B0-structure", cfg, "VerifyBatch: "+what, ssau.Pos(p, fn.Pos()), "batch:"+what, msg+" (unrecognised shape)")
		return nil
	}
	if fn == nil || !needRole(r, cfg, rl, "failBatch", rl.FailBatch) || !needRole(r, cfg, rl, "noPanic", rl.NoPanic) {
		return nil
	}
	ps := fn.Signature.Params()
	if ps.Len() != 5 || ps.At(0).Type().String() != "io.Reader" || !strings.HasSuffix(ps.At(1).Type().String(), "PublicKey") || ps.At(2).Type().String() != "[][]byte" || ps.At(3).Type().String() != "[][]byte" {
		return fail("signature", "expected (rand, publicKeys, messages, sigs, opts), got "+fn.Signature.String())
	}
	bi := &batchInfo{p: p, rl: rl, fn: fn, inner: map[string]*b.Loop{}, names: map[string]string{}}
	bi.loops = b.Loops(fn)
	for _, l := range bi.loops {
		if l.Parent == nil && len(l.Inner) > 0 {
			if bi.chunk != nil {
				return fail("chunk loop", "more than one nested top-level loop")
			}
			bi.chunk = l
		}
	}
	if bi.chunk == nil {
		return fail("chunk loop", "no top-level loop with inner loops found")
	}
	// header phis
	for _, in := range bi.chunk.Header.Instrs {
		ph, ok := in.(*ssa.Phi)
		if !ok {
			continue
		}
		for ei, e := range ph.Edges {
			pred := bi.chunk.Header.Preds[ei]
			if bi.chunk.Blocks[pred] {
				continue
			}
			if c, ok := e.(*ssa.Call); ok {
				if bn, ok := c.Common().Value.(*ssa.Builtin); ok && bn.Name() == "len" && c.Common().Args[0] == fn.Params[1] {
					bi.numPhi = ph
				}
			}
			if n, ok := constInt(e); ok && n == 0 && ph.Type().String() == "int" {
				// candidate offset: latch edge must be phi + x
				for ej, e2 := range ph.Edges {
					if bi.chunk.Blocks[bi.chunk.Header.Preds[ej]] {
						if bo, ok := e2.(*ssa.BinOp); ok && bo.Op == token.ADD && (bo.X == ph || bo.Y == ph) {
							bi.offPhi = ph
							if bo.X == ph {
								bi.bs = bo.Y
							} else {
								bi.bs = bo.X
							}
						}
					}
				}
			}
		}
	}
	if bi.numPhi == nil || bi.offPhi == nil {
		return fail("chunk counters", "cannot identify the remaining-count phi (initialised with len(publicKeys)) and the chunk-base phi (0, += batchSize)")
	}
	// batchSize must be phi{const, num}; num's latch must be num - batchSize
	bsPhi, ok := bi.bs.(*ssa.Phi)
	okBs := ok && len(bsPhi.Edges) == 2
	maxBatch := int64(-1)
	if okBs {
		seenNum := false
		for _, e := range bsPhi.Edges {
			if e == bi.numPhi {
				seenNum = true
			} else if n, ok := constInt(e); ok {
				maxBatch = n
			}
		}
		okBs = seenNum && maxBatch > 0
	}
	if !okBs {
		return fail("batchSize", "the chunk size is not min(maxBatchSize, remaining)")
	}
	okNum := false
	for ei, e := range bi.numPhi.Edges {
		if bi.chunk.Blocks[bi.chunk.Header.Preds[ei]] {
			if bo, ok := e.(*ssa.BinOp); ok && bo.Op == token.SUB && bo.X == bi.numPhi && bo.Y == bi.bs {
				okNum = true
			}
		}
	}
	if !okNum {
		return fail("chunk counters", "the remaining count is not decremented by the chunk size")
	}
	r.OK("B0-structure", cfg, "VerifyBatch: chunk loop counters", fmt.Sprintf("remaining=len(publicKeys) -= batchSize; offset=0 += batchSize; batchSize=min(%d, remaining)", maxBatch))
	r.Extra["maxBatchSize"] = maxBatch
	bi.names[pt.PhiName(bi.numPhi)] = "num"
	bi.names[pt.PhiName(bi.offPhi)] = "off"
	bi.names[pt.PhiName(bsPhi)] = "bs"
	// cells captured by failBatch
	for _, blk := range fn.Blocks {
		for _, in := range blk.Instrs {
			mc, ok := in.(*ssa.MakeClosure)
			if !ok || mc.Fn != rl.FailBatch {
				continue
			}
			for _, bd := range mc.Bindings {
				a, ok := bd.(*ssa.Alloc)
				if !ok {
					continue
				}
				switch a.Type().(*types.Pointer).Elem().String() {
				case "bool":
					bi.okCell = a
				case "int":
					bi.retCell = a
				case "[]bool":
					bi.validCell = a
				}
			}
		}
	}
	if bi.okCell == nil || bi.retCell == nil || bi.validCell == nil {
		return fail("result cells", "failBatch does not capture the (summary int, validity vector, fast-path flag) cells")
	}
	// the validity vector is assigned exactly once, a make([]bool, len(publicKeys))
	{
		var stores []*ssa.Store
		for _, ref := range *bi.validCell.Referrers() {
			if st, ok := ref.(*ssa.Store); ok && st.Addr == bi.validCell {
				stores = append(stores, st)
			}
		}
		isLenP1 := func(v ssa.Value) bool {
			if cv, ok := v.(*ssa.Convert); ok {
				v = cv.X
			}
			c, ok := v.(*ssa.Call)
			if !ok {
				return false
			}
			bn, ok := c.Common().Value.(*ssa.Builtin)
			return ok && bn.Name() == "len" && c.Common().Args[0] == fn.Params[1]
		}
		allTrue := false
		if len(stores) == 1 {
			switch v := stores[0].Val.(type) {
			case *ssa.MakeSlice:
				if isLenP1(v.Len) {
					bi.validIsN = true
					allTrue = initAllTrue(fn, v, bi.validCell)
				}
			case *ssa.Call:
				// a private constructor: returns its own make([]bool, n) with n = len(publicKeys), set all-true inside
				if h := v.Common().StaticCallee(); h != nil && h.Pkg == fn.Pkg && h.Parent() == nil && len(h.Blocks) > 0 {
					var mk *ssa.MakeSlice
					okRet := true
					for _, blk := range h.Blocks {
						if ret, ok := blk.Instrs[len(blk.Instrs)-1].(*ssa.Return); ok {
							m, isMk := ret.Results[0].(*ssa.MakeSlice)
							if len(ret.Results) != 1 || !isMk || (mk != nil && mk != m) {
								okRet = false
							} else {
								mk = m
							}
						}
					}
					if okRet && mk != nil {
						for k, prm := range h.Params {
							if mk.Len == ssa.Value(prm) && k < len(v.Common().Args) && isLenP1(v.Common().Args[k]) {
								bi.validIsN = true
								allTrue = initAllTrue(h, mk, nil)
							}
						}
					}
				}
			}
		}
		r.Check(allTrue, "B5-returns", cfg, "the validity vector starts all-true", ssau.InstrPos(p, bi.validCell), "a loop over the whole vector stores true at its counter in every iteration",
			"no loop sets every element of the freshly made validity vector to true before it is used")
		r.Check(bi.validIsN, "B0-structure", cfg, "VerifyBatch: the validity vector is make([]bool, len(publicKeys)), assigned once", ssau.InstrPos(p, bi.validCell), "one store of a make of length len(publicKeys)",
			"the validity vector is not a single make([]bool, len(publicKeys))")
	}
	cellName := func(a *ssa.Alloc) string {
		if a.Comment != "" {
			return "local:" + a.Comment
		}
		return "local:" + a.Name()
	}
	bi.names[cellName(bi.okCell)] = "local:batchOk"
	bi.names[cellName(bi.retCell)] = "local:ret"
	bi.names[cellName(bi.validCell)] = "local:valid"
	bi.model = rootModel(rl)
	bi.model.Name = func(f *ssa.Function) string {
		if f == rl.BoolToRet {
			return "boolToRet"
		}
		if f == rl.Msm {
			return "msm"
		}
		return rootModel(rl).Name(f)
	}
	bi.model.Pure[ssau.QName(rl.BoolToRet)] = true
	return bi
}

// stopFn: one iteration of loop l, continuing through single-predecessor exit blocks (break bodies).
func (bi *batchInfo) stopFn(l *b.Loop) func(*ssa.BasicBlock) bool {
	return func(bb *ssa.BasicBlock) bool {
		if bb == l.Header {
			return true
		}
		if l.Blocks[bb] {
			return false
		}
		// natural exit: successor of the header outside the loop
		for _, s := range l.Header.Succs {
			if s == bb {
				return true
			}
		}
		return len(bb.Preds) > 1
	}
}

// loopShape is the iteration space of a counted loop: the values taken by the counter expression C = ph + adj are
// lower, lower+1, …, bound-1 (all affine over the canonical leaves off, bs, n). Iteration number t = C - lower.
type loopShape struct {
	phLeaf       string
	adj          int
	lower, bound b.Affine
	count        b.Affine // bound - lower
	subst        b.Affine // what the phi leaf stands for in terms of the iteration number "i": i + lower - adj
}

// ssaAffine renders an int-typed SSA value as an affine form over the canonical leaves (off, bs, n, or a phi name).
func (bi *batchInfo) ssaAffine(v ssa.Value, depth int) b.Affine {
	bad := b.Affine{}
	if depth > 8 {
		return bad
	}
	mk := func(c int, leaf string) b.Affine {
		a := b.Affine{Const: c, Coef: map[string]int{}, OK: true}
		if leaf != "" {
			a.Coef[leaf] = 1
		}
		return a
	}
	switch x := v.(type) {
	case *ssa.Const:
		if n, ok := constInt(x); ok {
			return mk(int(n), "")
		}
	case *ssa.Phi:
		switch {
		case x == bi.offPhi:
			return mk(0, "off")
		case x == bi.bs:
			return mk(0, "bs")
		case x == bi.numPhi:
			// remaining = n - offset: both counters move by the chunk size in lockstep (rule B0 chunk counters)
			a := mk(0, "n")
			a.Coef["off"] = -1
			return a
		}
		return mk(0, pt.PhiName(x))
	case *ssa.BinOp:
		l, r := bi.ssaAffine(x.X, depth+1), bi.ssaAffine(x.Y, depth+1)
		switch x.Op {
		case token.ADD:
			return l.AddScaled(r, 1)
		case token.SUB:
			return l.AddScaled(r, -1)
		case token.MUL:
			if l.OK && len(l.Coef) == 0 {
				return mk(0, "").AddScaled(r, l.Const)
			}
			if r.OK && len(r.Coef) == 0 {
				return mk(0, "").AddScaled(l, r.Const)
			}
		}
	case *ssa.Convert:
		return bi.ssaAffine(x.X, depth+1)
	case *ssa.Call:
		bn, ok := x.Common().Value.(*ssa.Builtin)
		if !ok || bn.Name() != "len" {
			return bad
		}
		switch a := x.Common().Args[0].(type) {
		case *ssa.Parameter:
			if a == bi.fn.Params[1] {
				return mk(0, "n")
			}
		case *ssa.UnOp:
			if a.Op == token.MUL && a.X == bi.validCell && bi.validIsN {
				return mk(0, "n")
			}
		case *ssa.Slice:
			if a.High != nil {
				hi := bi.ssaAffine(a.High, depth+1)
				if a.Low == nil {
					return hi
				}
				return hi.AddScaled(bi.ssaAffine(a.Low, depth+1), -1)
			}
		}
	}
	return bad
}

// shape recognises `for c := lower; c < bound; c++` and go/ssa's range-over-slice form (phi from -1, index phi+1 < len).
func (bi *batchInfo) shape(l *b.Loop) (*loopShape, bool) {
	ifi, ok := l.Header.Instrs[len(l.Header.Instrs)-1].(*ssa.If)
	if !ok {
		return nil, false
	}
	cmp, ok := ifi.Cond.(*ssa.BinOp)
	if !ok || cmp.Op != token.LSS || len(l.Header.Succs) != 2 || !l.Blocks[l.Header.Succs[0]] {
		return nil, false
	}
	for _, in := range l.Header.Instrs {
		ph, ok := in.(*ssa.Phi)
		if !ok || ph.Type().String() != "int" {
			continue
		}
		var initV ssa.Value
		var step *ssa.BinOp
		okPhi := true
		for ei, e := range ph.Edges {
			if l.Blocks[l.Header.Preds[ei]] {
				bo, ok := e.(*ssa.BinOp)
				if !ok || bo.Op != token.ADD {
					okPhi = false
					break
				}
				one, other := bo.Y, bo.X
				if _, isC := bo.X.(*ssa.Const); isC {
					one, other = bo.X, bo.Y
				}
				if n, ok := constInt(one); !ok || n != 1 || other != ph || (step != nil && step != bo) {
					okPhi = false
					break
				}
				step = bo
			} else {
				if initV != nil && initV != e {
					okPhi = false
					break
				}
				initV = e
			}
		}
		if !okPhi || step == nil || initV == nil {
			continue
		}
		sh := &loopShape{phLeaf: pt.PhiName(ph)}
		switch cmp.X {
		case ph:
		case ssa.Value(step):
			sh.adj = 1
		default:
			continue
		}
		init := bi.ssaAffine(initV, 0)
		bound := bi.ssaAffine(cmp.Y, 0)
		if !init.OK || !bound.OK {
			continue
		}
		one := b.Affine{Const: sh.adj, Coef: map[string]int{}, OK: true}
		sh.lower = init.AddScaled(one, 1)
		sh.bound = bound
		sh.count = bound.AddScaled(sh.lower, -1)
		// ph = C - adj = i + lower - adj = i + init
		sh.subst = init.AddScaled(b.Affine{Coef: map[string]int{"i": 1}, OK: true}, 1)
		return sh, true
	}
	return nil, false
}

// region enumerates one iteration of loop l with canonical indices: the iteration number is "i" (0-based whatever the
// source counter starts at), the entry index offset+i is "@e".
func (bi *batchInfo) region(r *rep.Report, l *b.Loop, role string) ([]*rpath, *loopShape) {
	cfg := bi.p.Cfg.Name
	sh, ok := bi.shape(l)
	if !ok {
		r.Fail("B0-structure", cfg, "loop "+role+" has a unit-step counter", bi.pos(l.Header.Instrs[0].Pos()), "batch:loop:"+role, "cannot identify the loop counter and its affine bounds (unrecognised shape)")
		return nil, nil
	}
	paths, err := pt.EnumerateRegion(bi.fn, bi.model, l.Header, bi.stopFn(l))
	if err != nil {
		r.Fail("path-engine", cfg, "loop "+role+": paths enumerate", "", "batch:paths:"+role, err.Error())
		return nil, nil
	}
	names := map[string]string{}
	for k, v := range bi.names {
		names[k] = v
	}
	subst := bi.substFor(sh)
	entry := func(a b.Affine) bool { return a.Is(0, "i", "off") }
	var out []*rpath
	var unrec []string
	for _, pa := range paths {
		pt.NormalisePath(pa)
		unrec = append(unrec, pa.Unrec...)
		rp := &rpath{pa: pa}
		// learn the loop-carried flag phi (first argument of checkHash)
		for _, e := range pa.Events {
			if e.Callee == "checkHash" && len(e.Args) > 0 && strings.HasPrefix(e.Args[0].Op, "PHI:") {
				names[e.Args[0].Op] = "f"
			}
		}
		for _, a := range pa.Atoms {
			na := a
			na.T = b.NormIdxS(a.T, names, subst, entry)
			na.Key = na.T.String()
			if a.Block == l.Header {
				na.T = pt.Leaf(moreK)
				na.Key = moreK
			}
			rp.atoms = append(rp.atoms, na)
		}
		for _, e := range pa.Events {
			ne := e
			ne.Args = nil
			for _, x := range e.Args {
				ne.Args = append(ne.Args, b.NormIdxS(x, names, subst, entry))
			}
			ne.Addrs = nil
			for _, x := range e.Addrs {
				ne.Addrs = append(ne.Addrs, b.NormIdxS(x, names, subst, entry))
			}
			ne.Result = b.NormIdxS(e.Result, names, subst, entry)
			rp.events = append(rp.events, ne)
		}
		switch {
		case pa.Kind != "stop":
			rp.stop = pa.Kind
		case pa.StopAt == l.Header:
			rp.stop = "back"
		default:
			rp.stop = "break"
			for _, s := range l.Header.Succs {
				if s == pa.StopAt && pa.From == l.Header {
					rp.stop = "exit"
				}
			}
		}
		out = append(out, rp)
	}
	if len(unrec) > 0 {
		sort.Strings(unrec)
		r.Fail("path-engine", cfg, "loop "+role+": every construct is modelled", bi.pos(l.Header.Instrs[0].Pos()), "batch:unmodelled:"+role, "unmodelled constructs: "+strings.Join(unrec, "; "))
	}
	if os.Getenv("EDCHECK_REGIONDBG") == role {
		for i, rp := range out {
			cls, bad := marks(rp)
			fmt.Printf("--- %s path %d stop=%s class=%s bad=%v\n", role, i, rp.stop, cls, bad)
			for _, a := range rp.atoms {
				fmt.Printf("   atom %v %.160s\n", a.Val, a.Key)
			}
			for _, e := range rp.events {
				fmt.Printf("   ev %s %.200v %.160v\n", e.Callee, e.Args, e.Addrs)
			}
		}
	}
	r.Count("region-paths", len(out))
	return out, sh
}

// moreK is the canonical key of a loop's continuation test.
const moreK = "more-iterations"

// substFor: what the SSA leaves stand for in canonical terms inside a loop of the given shape.
func (bi *batchInfo) substFor(sh *loopShape) map[string]b.Affine {
	subst := map[string]b.Affine{}
	if sh != nil {
		subst[sh.phLeaf] = sh.subst
	}
	nMinusOff := b.Affine{Coef: map[string]int{"n": 1, "off": -1}, OK: true}
	subst[pt.PhiName(bi.numPhi)] = nMinusOff
	return subst
}

// marks classifies the result-vector / summary / fast-path-flag stores of a region path.
func marks(rp *rpath) (cls string, bad []string) {
	ret, vf, okf := false, false, false
	for _, e := range rp.events {
		if e.Callee != "store" || len(e.Addrs) != 1 || e.Addrs[0] == nil {
			continue
		}
		addr, val := e.Addrs[0].String(), e.Args[0].String()
		switch {
		case addr == "addr(local:ret)":
			v := e.Args[0]
			if v.Op == "or" && len(v.Args) == 2 {
				other := v.Args[0]
				if other.String() == "local:ret" {
					other = v.Args[1]
				}
				if n, ok := constOf(other); ok && n != 0 {
					ret = true
					continue
				}
			}
			bad = append(bad, "ret := "+val)
		case addr == "addr(local:batchOk)":
			if val == "#false" {
				okf = true
			} else {
				bad = append(bad, "batchOk := "+val)
			}
		case strings.HasPrefix(addr, "addr(deref(local:valid)"):
			if addr == "addr(deref(local:valid),@e)" && val == "#false" {
				vf = true
			} else {
				bad = append(bad, addr+" := "+val)
			}
		}
	}
	cls = rp.stop
	if ret {
		cls += "+ret"
	}
	if vf {
		cls += "+vfalse"
	}
	if okf {
		cls += "+okfalse"
	}
	return
}

// asPaths converts region paths into synthetic paths whose single result is the class, for engine G.
func asPaths(rps []*rpath) []*pt.Path {
	var out []*pt.Path
	for _, rp := range rps {
		cls, bad := marks(rp)
		if len(bad) > 0 {
			cls = "bad-store{" + strings.Join(bad, ";") + "}"
		}
		rp.class = cls
		out = append(out, &pt.Path{Atoms: rp.atoms, Kind: "return", Results: []*pt.Term{pt.Leaf(cls)}, ExitPos: rp.pa.ExitPos, Finals: map[string]*pt.Term{}})
	}
	return out
}

// indexDiscipline (B1): every access to the three input slices and to the result vector uses the entry index i+offset.
func (bi *batchInfo) indexDiscipline(r *rep.Report, rps []*rpath, role string) {
	cfg := bi.p.Cfg.Name
	n := 0
	bad := map[string]token.Pos{}
	check := func(t *pt.Term, pos token.Pos) {
		t.Walk(func(x *pt.Term) {
			if (x.Op == "at" || x.Op == "addr" || x.Op == "ptr") && len(x.Args) == 2 {
				base := x.Args[0].String()
				if base == "P1" || base == "P2" || base == "P3" || base == "deref(local:valid)" {
					n++
					if x.Args[1].String() != "@e" {
						bad[base+"["+x.Args[1].String()+"]"] = pos
					}
				}
			}
		})
	}
	for _, rp := range rps {
		for _, a := range rp.atoms {
			check(a.T, a.Pos)
		}
		for _, e := range rp.events {
			for _, x := range e.Args {
				check(x, e.Pos)
			}
			for _, x := range e.Addrs {
				if x != nil {
					check(x, e.Pos)
				}
			}
		}
	}
	for k, pos := range bad {
		r.Fail("B1-entry-index", cfg, role+": every per-entry access uses index i+offset", bi.pos(pos), "batch:index:"+role+":"+k, "access "+k+" does not use the entry index i+offset (P1=publicKeys, P2=messages, P3=sigs)")
	}
	if len(bad) == 0 {
		r.Check(n > 0, "B1-entry-index", cfg, role+": every per-entry access uses index i+offset", "", fmt.Sprintf("%d accesses, all at i+offset", n), "no per-entry access found in this loop (role has no instance)")
	}
}

func findEvents(rps []*rpath, callee string, onlyStop string) []pt.Event {
	var out []pt.Event
	seen := map[string]bool{}
	for _, rp := range rps {
		if onlyStop != "" && rp.stop != onlyStop {
			continue
		}
		for _, e := range rp.events {
			if e.Callee == callee {
				var k []string
				for _, a := range e.Addrs {
					if a != nil {
						k = append(k, a.String())
					} else {
						k = append(k, "-")
					}
				}
				for _, a := range e.Args {
					k = append(k, a.String())
				}
				key := strings.Join(k, "|")
				if !seen[key] {
					seen[key] = true
					out = append(out, e)
				}
			}
		}
	}
	return out
}

func addrStr(e pt.Event, i int) string {
	if i < len(e.Addrs) && e.Addrs[i] != nil {
		return e.Addrs[i].String()
	}
	return "-"
}

// slot checks that all events of a callee in a loop have the given address tuple.
func (bi *batchInfo) slot(r *rep.Report, rps []*rpath, role, callee string, want []string, what string) {
	cfg := bi.p.Cfg.Name
	evs := findEvents(rps, callee, "")
	if len(evs) == 0 {
		r.Fail("B2-slot-map", cfg, role+": "+what, "", "batch:slot:"+role+":"+callee, "no call to "+callee+" found in this loop (role has no instance)")
		return
	}
	for _, e := range evs {
		var got []string
		for i := range want {
			got = append(got, addrStr(e, i))
		}
		okk := true
		for i := range want {
			if want[i] != "*" && want[i] != got[i] {
				okk = false
			}
		}
		r.Check(okk, "B2-slot-map", cfg, role+": "+what, bi.pos(e.Pos), strings.Join(got, ", "), fmt.Sprintf("%s operates on (%s), want (%s)", callee, strings.Join(got, ", "), strings.Join(want, ", ")))
	}
}

const (
	scal = "fld(local:batch,scalars)"
	pnts = "fld(local:batch,points)"
)

func slotAddr(arr, idx string) string { return "addr(" + arr + "," + idx + ")" }

// ruleBatchAll runs every batch rule (B0–B8) on the current tree.
func ruleBatchAll(c *Ctx, r *rep.Report, p *load.Program, rl *roles.Roles, fl *flags) {
	cfg := p.Cfg.Name
	bi := resolveBatch(r, p, rl)
	if bi == nil {
		return
	}
	// classify loops by what they call
	roleOf := func(l *b.Loop) string {
		has := map[string]bool{}
		for blk := range l.Blocks {
			for _, in := range blk.Instrs {
				switch x := in.(type) {
				case *ssa.Call:
					cc := x.Common()
					if cc.IsInvoke() {
						has["invoke:"+cc.Method.Name()] = true
					} else if f := cc.StaticCallee(); f != nil {
						has[bi.model.Name(f)+"|"+ssau.QName(f)] = true
						// a per-entry step moved into a private helper keeps the loop's role
						if bi.model.InlineAll != nil && bi.model.InlineAll(f) {
							for _, hb := range f.Blocks {
								for _, hin := range hb.Instrs {
									if hc, ok := hin.(*ssa.Call); ok {
										if hc.Common().IsInvoke() {
											has["invoke:"+hc.Common().Method.Name()] = true
										} else if g := hc.Common().StaticCallee(); g != nil {
											has[bi.model.Name(g)+"|"+ssau.QName(g)] = true
										}
									}
								}
							}
						}
					}
				}
			}
		}
		hasName := func(s string) bool {
			for k := range has {
				if strings.HasPrefix(k, s+"|") || strings.HasSuffix(k, "|"+s) || k == s {
					return true
				}
			}
			return false
		}
		switch {
		case hasName("noPanic"):
			return "fallback"
		case hasName("invoke:Sum"):
			return "challenge"
		case hasName("scMin"):
			return "S"
		case hasName("internal/ge25519.UnpackNegativeVartime"):
			return "points"
		case hasName("internal/modm.Add"):
			return "sum"
		case hasName("internal/modm.Expand"):
			return "expand-r"
		}
		return ""
	}
	for _, l := range bi.chunk.Inner {
		if l.Parent != bi.chunk {
			r.Fail("B0-structure", cfg, "VerifyBatch: loops nest at most two deep", bi.pos(l.Header.Instrs[0].Pos()), "batch:nesting", "a loop inside an inner loop of the chunk body (unrecognised shape)")
			continue
		}
		ro := roleOf(l)
		if ro == "" || bi.inner[ro] != nil {
			r.Fail("B0-structure", cfg, "VerifyBatch: every loop of the chunk body has a recognised role", bi.pos(l.Header.Instrs[0].Pos()), "batch:loop-role", "unrecognised or duplicated loop in the chunk body (role '"+ro+"')")
			continue
		}
		bi.inner[ro] = l
	}
	for _, l := range bi.loops {
		if l.Parent == nil && l != bi.chunk {
			if roleOf(l) == "fallback" {
				bi.rem = l
			} else if bi.initL == nil && l.Header.Index < bi.chunk.Header.Index {
				bi.initL = l
			} else {
				r.Fail("B0-structure", cfg, "VerifyBatch: every top-level loop has a recognised role", bi.pos(l.Header.Instrs[0].Pos()), "batch:toplevel-loop", "unrecognised top-level loop")
			}
		}
	}
	for _, ro := range []string{"expand-r", "S", "sum", "challenge", "points", "fallback"} {
		if bi.inner[ro] == nil {
			r.Fail("B0-structure", cfg, "VerifyBatch: chunk body has the "+ro+" loop", "", "batch:missing-loop:"+ro, "loop with role "+ro+" not found (unrecognised shape)")
		}
	}
	if bi.rem == nil {
		r.Fail("B0-structure", cfg, "VerifyBatch: remainder loop exists", "", "batch:missing-loop:remainder", "remainder loop not found")
	}
	if len(bi.inner) < 6 || bi.rem == nil {
		return
	}
	r.OK("B0-structure", cfg, "VerifyBatch: loop roles", "expand-r, S, sum, challenge, points, fallback inside the chunk loop; init and remainder loops outside")

	// ---- per-loop regions and iteration spaces: every inner loop runs exactly batchSize iterations (sum: batchSize-1,
	// over slots 1..batchSize-1), the remainder loop exactly the remaining n-offset entries
	reg := map[string][]*rpath{}
	shapes := map[string]*loopShape{}
	for ro, l := range bi.inner {
		reg[ro], shapes[ro] = bi.region(r, l, ro)
	}
	reg["remainder"], shapes["remainder"] = bi.region(r, bi.rem, "remainder")
	for ro, rps := range reg {
		if rps == nil {
			return
		}
		sh := shapes[ro]
		want := b.Affine{Coef: map[string]int{"bs": 1}, OK: true}
		l := bi.rem
		switch ro {
		case "sum":
			want.Const = -1
			l = bi.inner[ro]
		case "remainder":
			want = b.Affine{Coef: map[string]int{"n": 1, "off": -1}, OK: true}
		default:
			l = bi.inner[ro]
		}
		r.Check(sh.count.Equal(want), "B0-loop-bounds", cfg, ro+" loop runs exactly "+want.String()+" iterations", bi.pos(l.Header.Instrs[0].Pos()),
			"unit step from "+sh.lower.String()+" while < "+sh.bound.String(), fmt.Sprintf("loop %s runs from %s while < %s: %s iterations, want %s", ro, sh.lower.String(), sh.bound.String(), sh.count.String(), want.String()))
		switch ro {
		case "expand-r", "sum":
		default:
			bi.indexDiscipline(r, rps, ro)
		}
	}

	// ---- B2 slot map
	iPlus := func(c string) string { return "aff{" + c + "}" }
	bi.slot(r, reg["expand-r"], "expand-r", "modm.Expand", []string{slotAddr(scal, iPlus("bs+i+1")), "slice(fld(local:batch,r),aff{16*i},aff{16*i+16})"}, "rScalars[i] = Expand(r[16i:16i+16]) lives in scalars[batchSize+1+i]")
	bi.slot(r, reg["S"], "S", "modm.Expand", []string{slotAddr(scal, iPlus("i")), "*"}, "scalars[i] = ModL(S_i)")
	bi.slot(r, reg["S"], "S", "modm.Mul", []string{slotAddr(scal, iPlus("i")), slotAddr(scal, iPlus("i")), slotAddr(scal, iPlus("bs+i+1"))}, "scalars[i] *= r_i (the randomiser in scalars[batchSize+1+i])")
	bi.slot(r, reg["sum"], "sum", "modm.Add", []string{"addr(" + scal + "[#0])", "addr(" + scal + "[#0])", slotAddr(scal, iPlus("i+1"))}, "scalars[0] += scalars[1+i] for i = 0 .. batchSize-2")
	bi.slot(r, reg["challenge"], "challenge", "modm.Expand", []string{slotAddr(scal, iPlus("i+1")), "slice(local:hash,#0,)"}, "scalars[i+1] = ModL(challenge hash)")
	bi.slot(r, reg["challenge"], "challenge", "modm.Mul", []string{slotAddr(scal, iPlus("i+1")), slotAddr(scal, iPlus("i+1")), slotAddr(scal, iPlus("bs+i+1"))}, "scalars[i+1] *= r_i (same randomiser as S_i and R_i)")
	// S loop: Expand source is sigs[i+offset][32:]
	for _, e := range findEvents(reg["S"], "modm.Expand", "") {
		src := ""
		if len(e.Args) > 1 {
			src = e.Args[1].String()
		}
		r.Check(src == "P3[@e][#32:]", "B2-slot-map", cfg, "S: scalars[i] is expanded from sigs[i+offset][32:]", bi.pos(e.Pos), src, "S scalar is expanded from "+src)
	}
	// points loop: both decodes
	{
		evs := findEvents(reg["points"], "ge25519.UnpackNegativeVartime", "")
		seenA, seenR := false, false
		for _, e := range evs {
			dst, src := addrStr(e, 0), ""
			if len(e.Args) > 1 {
				src = e.Args[1].String()
			}
			switch {
			case dst == slotAddr(pnts, iPlus("i+1")) && src == "P1[@e]":
				seenA = true
			case dst == slotAddr(pnts, iPlus("bs+i+1")) && (src == "P3[@e]" || src == "P3[@e][#0:#32]"):
				seenR = true
			default:
				r.Fail("B2-slot-map", cfg, "points: points[i+1] = -A_i, points[batchSize+i+1] = -R_i", bi.pos(e.Pos), "batch:slot:points:"+dst+"<-"+src, "decode writes "+dst+" from "+src)
			}
		}
		r.Check(seenA && seenR, "B2-slot-map", cfg, "points: points[i+1] = -A_i, points[batchSize+i+1] = -R_i", "", "both decodes present with matching slots", "missing decode of A_i into points[i+1] or of R_i into points[batchSize+i+1]")
	}

	// ---- B4/B5/B6: per-loop decision structure (guard agreement with the single verifier, fail/mark discipline)
	const brk = "break+ret+vfalse+okfalse"
	ltK := moreK
	zip := "fld(P4,ZIP215Verify)"
	{ // S loop
		lenK, minK := "len(P3[@e])", "scMin(P3[@e][#32:])"
		worlds := g.Product(map[string][]int{lenK: {0, 63, 64, 65}}, []string{ltK, minK}, nil)
		runG(r, p, "B6-guards-S", "batch S loop", bi.fn, asPaths(reg["S"]), worlds, func(w *g.World) g.Terminal {
			switch {
			case !w.Bools[ltK]:
				return g.Terminal{Kind: "return", Results: []string{"exit"}}
			case w.Ints[lenK] != 64:
				return g.Terminal{Kind: "return", Results: []string{brk}}
			case !w.Bools[minK]:
				return g.Terminal{Kind: "return", Results: []string{"back+ret+vfalse"}}
			}
			return g.Terminal{Kind: "return", Results: []string{"back"}}
		})
	}
	{ // challenge loop
		lenK, smK := "len(P1[@e])", "smallOrder(P1[@e])"
		ch := T("checkHash", L("f"), L("P2[@e]"), T("fld", L("P4"), L("Hash")))
		_ = ch
		var errK, pureK string
		for _, rp := range reg["challenge"] {
			for _, a := range rp.atoms {
				if strings.HasPrefix(a.Key, "eq(nil,res(checkHash(") {
					errK = a.Key
				}
				if strings.HasPrefix(a.Key, fmt.Sprintf("eq(#%d,res(checkHash(", fl.pure)) {
					pureK = a.Key
				}
			}
		}
		wantErr := "eq(nil,res(checkHash(f,P2[@e],fld(P4,Hash)),#1))"
		wantPure := fmt.Sprintf("eq(#%d,res(checkHash(f,P2[@e],fld(P4,Hash)),#0))", fl.pure)
		r.Check(errK == wantErr && pureK == wantPure, "B6-guards-challenge", cfg, "challenge loop: variant selection is checkHash(f, messages[i+offset], opts.HashFunc()) per entry", "", wantErr,
			fmt.Sprintf("per-entry digest check / purity test are %q / %q, want %q / %q", errK, pureK, wantErr, wantPure))
		// a defensive re-check of the signature length is decided already: the S loop completed without a break, so
		// every entry of the chunk has len(sigs[e]) == 64 (rules B0 loop bounds, B3 phase order and flag dominance)
		worlds := g.Product(map[string][]int{lenK: {0, 31, 32, 33}, "len(P3[@e])": {64}}, []string{ltK, zip, smK, wantErr, wantPure}, nil)
		runG(r, p, "B6-guards-challenge", "batch challenge loop", bi.fn, asPaths(reg["challenge"]), worlds, func(w *g.World) g.Terminal {
			switch {
			case !w.Bools[ltK]:
				return g.Terminal{Kind: "return", Results: []string{"exit"}}
			case w.Ints[lenK] != 32:
				return g.Terminal{Kind: "return", Results: []string{brk}}
			case !w.Bools[zip] && w.Bools[smK]:
				return g.Terminal{Kind: "return", Results: []string{brk}}
			case !w.Bools[wantErr]:
				return g.Terminal{Kind: "return", Results: []string{brk}}
			}
			return g.Terminal{Kind: "return", Results: []string{"back"}}
		})
		// transcript on every continuing path; hash clean at the back edge and at every break
		ctx := T("res", T("unwrap", L("P4")), N(1))
		fl2 := T("res", T("checkHash", L("f"), L("P2[@e]"), T("fld", L("P4"), L("Hash"))), N(0))
		for _, rp := range reg["challenge"] {
			if rp.stop == "back" {
				var sums []pt.Event
				isPure := true
				for _, a := range rp.atoms {
					if a.Key == wantPure {
						isPure = a.Val
					}
				}
				for _, e := range rp.events {
					if e.Callee == "hash.Sum" {
						sums = append(sums, e)
					}
				}
				want := []string{"P3[@e][#0:#32]", "P1[@e]", "P2[@e]"}
				if !isPure {
					want = append([]string{T("dom2", fl2, ctx).String()}, want...)
				}
				var got []string
				if len(sums) == 1 {
					for _, a := range sums[0].Args {
						got = append(got, a.String())
					}
				}
				r.Check(len(sums) == 1 && strings.Join(got, " ") == strings.Join(want, " "), "H-batch-transcript", cfg, "challenge loop hashes [dom2(f,c)] || sigs[e][0:32] || publicKeys[e] || messages[e]", bi.pos(rp.pa.ExitPos),
					strings.Join(want, " || "), fmt.Sprintf("transcript is %v, want %v", got, want))
			}
			r.Check(len(rp.pa.HashOpen) == 0, "H-hash-clean", cfg, "the shared hash object is clean at every iteration boundary and break of the challenge loop", bi.pos(rp.pa.ExitPos),
				"no absorbed data at "+rp.stop, "hash object still holds absorbed data when the iteration ends ("+rp.stop+"): stale state would leak into the next entry")
		}
	}
	{ // points loop
		decA, decR, smR := "ok:ge25519.UnpackNegativeVartime(P1[@e])", "ok:ge25519.UnpackNegativeVartime(P3[@e])", "smallOrder(P3[@e][#0:#32])"
		// the R decode may be given sigs[e] or sigs[e][:32]
		for _, rp := range reg["points"] {
			for _, a := range rp.atoms {
				if a.Key == "ok:ge25519.UnpackNegativeVartime(P3[@e][#0:#32])" {
					decR = a.Key
				}
			}
		}
		// lengths were decided by the S and challenge loops (see above): only the nominal values are feasible here
		worlds := g.Product(map[string][]int{"len(P1[@e])": {32}, "len(P3[@e])": {64}}, []string{ltK, zip, decA, decR, smR}, func(w *g.World) bool { return w.Bools[decR] || w.Bools[smR] })
		runG(r, p, "B6-guards-points", "batch points loop", bi.fn, asPaths(reg["points"]), worlds, func(w *g.World) g.Terminal {
			switch {
			case !w.Bools[ltK]:
				return g.Terminal{Kind: "return", Results: []string{"exit"}}
			case !w.Bools[decA], !w.Bools[decR]:
				return g.Terminal{Kind: "return", Results: []string{brk}}
			case !w.Bools[zip] && w.Bools[smR]:
				return g.Terminal{Kind: "return", Results: []string{brk}}
			}
			return g.Terminal{Kind: "return", Results: []string{"back"}}
		})
	}

	// ---- fallback and remainder: single verification of the same entry under the same options
	np := "noPanic(P1[@e],P2[@e],P3[@e],P4)"
	res0 := "res(" + np + ",#0)"
	checkSingle := func(rps []*rpath, role string, guarded bool) {
		for _, rp := range rps {
			if rp.stop == "exit" {
				continue
			}
			already := false
			for _, a := range rp.atoms {
				if a.Key == "deref(local:valid)[@e]" && !a.Val {
					already = true
				}
			}
			var calls, stores []string
			for _, e := range rp.events {
				switch e.Callee {
				case "noPanic":
					var as []string
					for _, a := range e.Args {
						as = append(as, a.String())
					}
					calls = append(calls, "noPanic("+strings.Join(as, ",")+")")
				case "store":
					stores = append(stores, e.Addrs[0].String()+":="+e.Args[0].String())
				}
			}
			sort.Strings(stores)
			var wantCalls, wantStores []string
			if already && guarded {
				wantStores = []string{"addr(local:ret):=or(boolToRet(deref(local:valid)[@e]),local:ret)"}
			} else {
				wantCalls = []string{np}
				wantStores = []string{"addr(deref(local:valid),@e):=" + res0, "addr(local:ret):=or(boolToRet(" + res0 + "),local:ret)"}
			}
			sort.Strings(wantStores)
			if already && guarded {
				// the entry is known to be false on this path: folding in boolToRet(false) is the same statement
				for i, st := range stores {
					if st == "addr(local:ret):=or(boolToRet(#false),local:ret)" {
						stores[i] = wantStores[0]
					}
				}
			}
			r.Check(rp.stop == "back" && strings.Join(calls, ";") == strings.Join(wantCalls, ";") && strings.Join(stores, ";") == strings.Join(wantStores, ";"),
				"B5-single-verify", cfg, role+": entry e is decided by noPanic(publicKeys[e], messages[e], sigs[e], opts), stored in valid[e] and folded into the summary", bi.pos(rp.pa.ExitPos),
				"calls "+strings.Join(wantCalls, ";")+" stores "+strings.Join(wantStores, ";"),
				fmt.Sprintf("calls %v stores %v (stop=%s); want calls %v stores %v", calls, stores, rp.stop, wantCalls, wantStores))
		}
	}
	checkSingle(reg["fallback"], "fallback", true)
	checkSingle(reg["remainder"], "remainder", false)
	// the fallback guard is exactly "already marked invalid"
	{
		okG := true
		for _, rp := range reg["fallback"] {
			for _, a := range rp.atoms {
				if a.Key != ltK && a.Key != "deref(local:valid)[@e]" {
					okG = false
				}
			}
		}
		r.Check(okG, "B5-single-verify", cfg, "fallback: the only per-entry guard is the entry's own validity flag", "", "guards: i<batchSize, valid[e]", "fallback loop has additional guards")
	}
	// boolToRet: true -> 0, false -> non-zero
	if rl.BoolToRet != nil {
		paths := pathsOf(r, p, rl.BoolToRet, rootModel(rl), "boolToRet")
		okB := paths != nil
		for _, pa := range paths {
			if len(pa.Atoms) != 1 || pa.Atoms[0].Key != "P0" || len(pa.Results) != 1 {
				okB = false
				continue
			}
			n, isC := constOf(pa.Results[0])
			if !isC || (pa.Atoms[0].Val && n != 0) || (!pa.Atoms[0].Val && n == 0) {
				okB = false
			}
		}
		r.Check(okB, "B5-summary", cfg, "boolToRet maps true to 0 and false to a non-zero value", ssau.Pos(p, rl.BoolToRet.Pos()), "two paths", "boolToRet does not map true->0 / false->non-zero")
	}
	bi.chunkLevel(r, fl)
}

// chunkLevel: rules on the chunk body outside the inner loops (B3, B7, B8) and on prologue / epilogue.
func (bi *batchInfo) chunkLevel(r *rep.Report, fl *flags) {
	p, cfg, fn := bi.p, bi.p.Cfg.Name, bi.fn
	inInner := func(bb *ssa.BasicBlock) *b.Loop {
		for _, l := range bi.chunk.Inner {
			if l.Blocks[bb] {
				return l
			}
		}
		return nil
	}
	// --- B7: entropy read inside the chunk loop, before (dominating) the expansion loop, exactly 16*batchSize bytes of batch.r
	var reads []*ssa.Call
	for _, blk := range fn.Blocks {
		for _, in := range blk.Instrs {
			if c, ok := in.(*ssa.Call); ok {
				if f := c.Common().StaticCallee(); f != nil && f.String() == "io.ReadFull" {
					reads = append(reads, c)
				}
			}
		}
	}
	okRead := len(reads) == 1 && bi.chunk.Blocks[reads[0].Block()] && inInner(reads[0].Block()) == nil && reads[0].Block().Dominates(bi.inner["expand-r"].Header)
	pos := ""
	if len(reads) > 0 {
		pos = ssau.InstrPos(p, reads[0])
	}
	r.Check(okRead, "B7-randomness", cfg, "fresh entropy is read once per chunk, inside the chunk loop, before the randomisers are expanded", pos,
		"one io.ReadFull in the chunk body dominating the expansion loop", fmt.Sprintf("%d io.ReadFull calls; in chunk loop / dominating the expansion loop: %v", len(reads), okRead))
	if okRead {
		// region from the read's block to see its buffer
		paths, err := pt.EnumerateRegion(fn, bi.model, reads[0].Block(), func(bb *ssa.BasicBlock) bool { return true })
		okBuf := err == nil && len(paths) > 0
		got := ""
		for _, pa := range paths {
			for _, e := range pa.Events {
				if e.Callee == "io.ReadFull" {
					names := map[string]string{}
					for k, v := range bi.names {
						names[k] = v
					}
					a := b.NormIdx(e.Addrs[1], names, func(b.Affine) bool { return false })
					got = a.String()
					if got != "slice(fld(local:batch,r),#0,aff{16*bs})" {
						okBuf = false
					}
					rd := e.Args[0].String()
					if !strings.Contains(rd, "P0") && !strings.Contains(rd, "PHI:rand") {
						okBuf = false
						got += " reader=" + rd
					}
				}
			}
		}
		r.Check(okBuf, "B7-randomness", cfg, "the entropy read fills exactly batch.r[0:16*batchSize] from the caller's reader", pos, got, "entropy buffer is "+got+", want batch.r[0:16*batchSize]")
	}
	// --- B3: phase order and dominance by the fast-path flag
	order := []string{"expand-r", "S", "sum", "challenge", "points"}
	okOrder := true
	for i := 0; i+1 < len(order); i++ {
		a, c := bi.inner[order[i]], bi.inner[order[i+1]]
		// the earlier loop's natural exit must dominate the later loop's header
		dom := false
		for _, s := range a.Header.Succs {
			if !a.Blocks[s] && s.Dominates(c.Header) {
				dom = true
			}
		}
		if !dom {
			okOrder = false
			r.Fail("B3-phase-order", cfg, "phase "+order[i]+" completes before phase "+order[i+1]+" starts", bi.pos(c.Header.Instrs[0].Pos()), "batch:order:"+order[i]+"<"+order[i+1], "the "+order[i+1]+" loop is not dominated by the exit of the "+order[i]+" loop (summation must precede slot reuse, randomisers must exist before use)")
		}
	}
	if okOrder {
		r.OK("B3-phase-order", cfg, "phases run in the order expand-r, S, sum, challenge, points", "each loop header is dominated by the previous loop's exit")
	}
	// blocks reached only when the flag is true / false
	flagTrue := map[*ssa.BasicBlock]bool{}
	flagFalse := map[*ssa.BasicBlock]bool{}
	for _, blk := range fn.Blocks {
		ifi, ok := blk.Instrs[len(blk.Instrs)-1].(*ssa.If)
		if !ok {
			continue
		}
		cond := ifi.Cond
		neg := false
		if u, ok := cond.(*ssa.UnOp); ok && u.Op == token.NOT {
			cond, neg = u.X, true
		}
		ld, ok := cond.(*ssa.UnOp)
		if !ok || ld.Op != token.MUL || ld.X != bi.okCell {
			continue
		}
		t, f := blk.Succs[0], blk.Succs[1]
		if neg {
			t, f = f, t
		}
		flagTrue[t] = true
		flagFalse[f] = true
	}
	domBy := func(set map[*ssa.BasicBlock]bool, x *ssa.BasicBlock) bool {
		for s := range set {
			if len(s.Preds) == 1 && s.Dominates(x) {
				return true
			}
		}
		return false
	}
	for _, ro := range []string{"sum", "challenge", "points"} {
		r.Check(domBy(flagTrue, bi.inner[ro].Header), "B3-flag-dominance", cfg, "the "+ro+" phase runs only while the fast-path flag is still true", bi.pos(bi.inner[ro].Header.Instrs[0].Pos()),
			"dominated by the true branch of a test of the flag", "the "+ro+" loop is not guarded by `if batchOk`")
	}
	r.Check(domBy(flagFalse, bi.inner["fallback"].Header), "B3-flag-dominance", cfg, "the per-signature fallback runs iff the fast-path flag is false", bi.pos(bi.inner["fallback"].Header.Instrs[0].Pos()),
		"dominated by the false branch of a test of the flag", "the fallback loop is not guarded by `if !batchOk`")
	// msm call and identity test
	var msm *ssa.Call
	var okStore *ssa.Store
	for blk := range bi.chunk.Blocks {
		for _, in := range blk.Instrs {
			switch x := in.(type) {
			case *ssa.Call:
				if x.Common().StaticCallee() == bi.rl.Msm {
					msm = x
				}
			case *ssa.Store:
				if x.Addr == bi.okCell {
					if c, ok := x.Val.(*ssa.Const); !ok || c.Value == nil {
						okStore = x
					} else if inInner(blk) == nil && c.Value.String() != "true" {
						okStore = x
					}
				}
			}
		}
	}
	if msm == nil || bi.rl.BatchNeutral == nil {
		r.Fail("B3-equation", cfg, "the chunk body calls the multi-scalar multiplication", "", "batch:msm", "call to the multi-scalar routine not found")
	} else {
		okM := domBy(flagTrue, msm.Block()) && bi.inner["points"].Header.Dominates(msm.Block())
		// count argument = 2*batchSize+1 and the heap is the local scratch
		cnt := msm.Common().Args[len(msm.Common().Args)-1]
		// any spelling of 2*batchSize + 1
		cntOK := bi.ssaAffine(cnt, 0).Equal(b.Affine{Const: 1, Coef: map[string]int{"bs": 2}, OK: true})
		r.Check(okM && cntOK, "B3-equation", cfg, "multi-scalar multiplication over 2*batchSize+1 terms, after the point phase, only while the flag is true", ssau.InstrPos(p, msm),
			"count = 2*batchSize+1", fmt.Sprintf("msm guarded/dominated: %v, count is 2*batchSize+1: %v", okM, cntOK))
		// batchOk = batchNeutral(&p) where p is msm's output
		okN := false
		if okStore != nil {
			if c, ok := okStore.Val.(*ssa.Call); ok && c.Common().StaticCallee() == bi.rl.BatchNeutral && len(c.Common().Args) == 1 && c.Common().Args[0] == msm.Common().Args[0] && msm.Block().Dominates(okStore.Block()) {
				okN = true
			}
		}
		posN := ""
		if okStore != nil {
			posN = ssau.InstrPos(p, okStore)
		}
		r.Check(okN, "B3-equation", cfg, "the flag becomes the cofactored identity test of the multi-scalar result", posN, "batchOk = batchNeutral(&p) after msm(&p, ...)", "the fast-path flag is not set from the cofactored identity test of the multi-scalar result")
	}
	// points[0] = Basepoint inside the chunk loop, under the flag, before the point loop
	{
		found := false
		for blk := range bi.chunk.Blocks {
			if inInner(blk) != nil {
				continue
			}
			for _, in := range blk.Instrs {
				st, ok := in.(*ssa.Store)
				if !ok {
					continue
				}
				ld, ok := st.Val.(*ssa.UnOp)
				if !ok || ld.Op != token.MUL {
					continue
				}
				gl, ok := ld.X.(*ssa.Global)
				if !ok || gl.Name() != "Basepoint" {
					continue
				}
				ia, ok := st.Addr.(*ssa.IndexAddr)
				if !ok {
					continue
				}
				if n, ok := constInt(ia.Index); ok && n == 0 && msm != nil && blk.Dominates(msm.Block()) && (blk != msm.Block() || instrIndex(st) < instrIndex(msm)) {
					found = true
				}
			}
		}
		r.Check(found, "B8-scratch-redefined", cfg, "points[0] = base point is (re)written in every chunk before the point phase", "", "store of ge25519.Basepoint to points[0] in the chunk body dominating the multi-scalar call",
			"points[0] is not re-initialised with the base point inside the chunk loop (the multi-scalar routine overwrites it)")
	}
	// the flag cell itself is created (true) per chunk
	{
		okInit := bi.chunk.Blocks[bi.okCell.Block()]
		init := false
		for _, ref := range *bi.okCell.Referrers() {
			if st, ok := ref.(*ssa.Store); ok && st.Block() == bi.okCell.Block() {
				if c, ok := st.Val.(*ssa.Const); ok && c.Value != nil && c.Value.String() == "true" {
					init = true
				}
			}
		}
		r.Check(okInit && init, "B8-scratch-redefined", cfg, "the fast-path flag starts true in every chunk", ssau.InstrPos(p, bi.okCell), "allocated and set true inside the chunk loop", "the fast-path flag is not re-initialised per chunk")
	}
	// scratch heap is a local of the call (C15 also checks this through M1)
	// --- prologue / epilogue: whole-function paths are too many; check returns structurally
	nret := 0
	kinds := map[string]int{}
	for _, blk := range fn.Blocks {
		ret, ok := blk.Instrs[len(blk.Instrs)-1].(*ssa.Return)
		if !ok {
			continue
		}
		nret++
		paths, err := pt.EnumerateRegion(fn, bi.model, blk, func(*ssa.BasicBlock) bool { return true })
		if err != nil || len(paths) != 1 || len(paths[0].Results) != 3 {
			r.Fail("B5-returns", cfg, "every return of VerifyBatch is modelled", ssau.InstrPos(p, ret), "batch:return", "cannot model a return")
			continue
		}
		res := paths[0].Results
		names := map[string]string{}
		for k, v := range bi.names {
			names[k] = v
		}
		var rs []string
		for _, x := range res {
			rs = append(rs, b.NormIdx(x, names, func(b.Affine) bool { return false }).String())
		}
		got := strings.Join(rs, " | ")
		okR := false
		switch {
		case rs[0] == "eq(#0,local:ret)" && rs[1] == "deref(local:valid)" && rs[2] == "nil":
			okR = true
			kinds["result"]++
		case rs[0] == "#true" && rs[1] == "deref(local:valid)" && rs[2] == "nil":
			// an early (true, valid, nil) is the same answer only for the empty batch: require a dominating n == 0 test
			if bi.emptyGuard(blk) {
				okR = true
				kinds["empty-batch"]++
			}
		case rs[0] == "#false" && rs[1] == "nil" && rs[2] != "nil":
			// error returns: unwrap's error, the count mismatch, the entropy failure
			switch {
			case rs[2] == "res(unwrap(P4),#2)":
				okR = true
				kinds["options-error"]++
			case rs[2] == "G:ed25519.errArgCounts":
				okR = true
				kinds["count-mismatch"]++
			case strings.HasPrefix(rs[2], "res(ReadFull(") || strings.HasPrefix(rs[2], "PHI:err") || strings.HasPrefix(rs[2], "local:err"):
				okR = true
				kinds["entropy-error"]++
			}
		}
		r.Check(okR, "B5-returns", cfg, "VerifyBatch returns (ret==0, valid, nil) or (false, nil, err) for the three documented error sources", ssau.InstrPos(p, ret), got, "unexpected return "+got)
	}
	for _, k := range []string{"result", "options-error", "count-mismatch", "entropy-error"} {
		r.Check(kinds[k] > 0, "B5-returns", cfg, "VerifyBatch has the documented exit: "+k, "", fmt.Sprintf("%d return sites", kinds[k]), "no return site of kind "+k+" (the documented exits are: options error, count mismatch, entropy error, result)")
	}
	_ = nret
	bi.argCounts(r)
	_ = fl
}

// emptyGuard: blk is reached only through the true branch of a test n == 0 (n = len(publicKeys)).
func (bi *batchInfo) emptyGuard(blk *ssa.BasicBlock) bool {
	for _, c := range bi.fn.Blocks {
		ifi, ok := c.Instrs[len(c.Instrs)-1].(*ssa.If)
		if !ok {
			continue
		}
		cmp, ok := ifi.Cond.(*ssa.BinOp)
		if !ok || (cmp.Op != token.EQL && cmp.Op != token.NEQ) {
			continue
		}
		x, y := cmp.X, cmp.Y
		if _, isC := x.(*ssa.Const); isC {
			x, y = y, x
		}
		if n, ok := constInt(y); !ok || n != 0 {
			continue
		}
		a := bi.ssaAffine(x, 0)
		if !a.Is(0, "n") {
			continue
		}
		succ := c.Succs[0]
		if cmp.Op == token.NEQ {
			succ = c.Succs[1]
		}
		if len(succ.Preds) == 1 && succ.Dominates(blk) {
			return true
		}
	}
	return false
}

func instrIndex(in ssa.Instruction) int {
	for i, x := range in.Block().Instrs {
		if x == in {
			return i
		}
	}
	return -1
}

func (bi *batchInfo) regionTop(r *rep.Report, l *b.Loop) ([]*rpath, string) {
	paths, err := pt.EnumerateRegion(bi.fn, bi.model, l.Header, bi.stopFn(l))
	if err != nil {
		return nil, ""
	}
	var out []*rpath
	for _, pa := range paths {
		out = append(out, &rpath{pa: pa})
	}
	return out, ""
}

// argCounts (B0-arg-counts): the entry loops are reached exactly when the three input slices have the same length;
// every other length combination returns (false, nil, non-nil error). Decided on the prologue's paths over all
// (len(publicKeys), len(messages), len(sigs)) in {0,1,2}^3 — equality tests cannot tell larger values apart.
func (bi *batchInfo) argCounts(r *rep.Report) {
	cfg, fn := bi.p.Cfg.Name, bi.fn
	hdr := map[*ssa.BasicBlock]bool{}
	for _, l := range bi.loops {
		hdr[l.Header] = true
	}
	paths, err := pt.EnumerateRegion(fn, bi.model, nil, func(bb *ssa.BasicBlock) bool { return hdr[bb] })
	if err != nil || len(paths) == 0 {
		r.Fail("B0-arg-counts", cfg, "VerifyBatch prologue is modelled", ssau.Pos(bi.p, fn.Pos()), "batch:prologue", fmt.Sprint("cannot enumerate the prologue: ", err))
		return
	}
	for _, pa := range paths {
		pt.NormalisePath(pa)
	}
	lenOf := func(t *pt.Term, l [3]int) (int, bool) {
		if n, ok := constOf(t); ok {
			return int(n), true
		}
		switch t.String() {
		case "len(P1)":
			return l[0], true
		case "len(P2)":
			return l[1], true
		case "len(P3)":
			return l[2], true
		}
		return 0, false
	}
	var bad []string
	note := func(s string) {
		if len(bad) < 4 {
			bad = append(bad, s)
		}
	}
	unrec := map[string]bool{}
	n := 0
	for w := 0; w < 27*4; w++ {
		l := [3]int{w % 3, (w / 3) % 3, (w / 9) % 3}
		unwrapOK, randNil := (w/27)&1 == 0, (w/54)&1 == 0
		var hit []*pt.Path
		for _, pa := range paths {
			ok := true
			for _, a := range pa.Atoms {
				var v, known bool
				switch {
				case strings.HasPrefix(a.Key, "eq(nil,res(unwrap("):
					v, known = unwrapOK, true
				case a.Key == "eq(P0,nil)" || a.Key == "eq(nil,P0)":
					v, known = randNil, true
				case (a.T.Op == "eq" || a.T.Op == "lt" || a.T.Op == "gt" || a.T.Op == "le" || a.T.Op == "ge") && len(a.T.Args) == 2:
					x, ok1 := lenOf(a.T.Args[0], l)
					y, ok2 := lenOf(a.T.Args[1], l)
					if ok1 && ok2 {
						known = true
						switch a.T.Op {
						case "eq":
							v = x == y
						case "lt":
							v = x < y
						case "gt":
							v = x > y
						case "le":
							v = x <= y
						case "ge":
							v = x >= y
						}
					}
				}
				if !known {
					// bookkeeping of a loop inside an inlined helper (initialising the result vector): not a guard on the inputs
					if strings.Contains(a.Key, "PHI:") || strings.Contains(a.Key, "local:make") {
						continue
					}
					unrec[a.Key] = true
					ok = false
					break
				}
				if v != a.Val {
					ok = false
					break
				}
			}
			if ok {
				hit = append(hit, pa)
			}
		}
		if len(hit) == 0 {
			note(fmt.Sprintf("lengths %v: no consistent prologue path", l))
			continue
		}
		n++
		same := l[0] == l[1] && l[1] == l[2]
		for _, pa := range hit {
			switch {
			case !unwrapOK:
				if pa.Kind != "return" {
					note("an options error does not return")
				}
			case !same:
				okR := pa.Kind == "return" && len(pa.Results) == 3 && pa.Results[0].String() == "#false" && pa.Results[1].String() == "nil" && pa.Results[2].String() != "nil" && !strings.HasPrefix(pa.Results[2].String(), "res(unwrap(")
				if !okR {
					note(fmt.Sprintf("lengths (publicKeys, messages, sigs) = %v are accepted: the prologue %s instead of returning the count-mismatch error", l, map[bool]string{true: "returns " + fmt.Sprint(pa.Results), false: "continues into the entry loops"}[pa.Kind == "return"]))
				}
			default:
				if pa.Kind == "return" && !(l[0] == 0 && len(pa.Results) == 3 && pa.Results[0].String() == "#true" && pa.Results[2].String() == "nil") {
					note(fmt.Sprintf("equal lengths %v are refused: %v", l, pa.Results))
				}
			}
		}
	}
	for k := range unrec {
		note("unrecognised prologue guard " + k)
	}
	r.Check(len(bad) == 0, "B0-arg-counts", cfg, "VerifyBatch reaches the entry loops exactly when len(publicKeys) == len(messages) == len(sigs); any other combination returns the count-mismatch error", ssau.Pos(bi.p, fn.Pos()),
		fmt.Sprintf("%d worlds (3 lengths in {0,1,2} x options error x nil reader) x %d prologue paths", n, len(paths)), strings.Join(bad, "; "))
}

// ruleMsmFinal (B9-final-ladder): the function that finishes the multi-scalar multiplication ([s]P for the one
// surviving term). Its accumulator must be a group element on every path: a copy of the point, or the neutral element
// (0, 1, 1, 0) — never the all-zero value, which absorbs every addition and passes the identity test. Scalar 1 returns
// the point, scalar 0 the neutral element; the ladder doubles once per bit and adds the point exactly when the bit is set.
func ruleMsmFinal(r *rep.Report, p *load.Program, rl *roles.Roles) {
	cfg := p.Cfg.Name
	if rl.Msm == nil {
		return
	}
	mod, _, _ := ssau.Reachable(rl.Msm)
	var fn *ssa.Function
	for _, f := range mod {
		if f.Pkg != rl.Msm.Pkg || f.Signature.Params().Len() != 3 {
			continue
		}
		ps := f.Signature.Params()
		if strings.HasSuffix(ps.At(0).Type().String(), "ge25519.Ge25519") && strings.HasSuffix(ps.At(1).Type().String(), "ge25519.Ge25519") && strings.HasSuffix(ps.At(2).Type().String(), "modm.Bignum256") {
			if fn != nil {
				fn = nil
				break
			}
			fn = f
		}
	}
	if fn == nil {
		r.Fail("B9-final-ladder", cfg, "the final single-scalar multiplication of the multi-scalar routine is identified", "", "batch:final", "no unique func(r, point *Ge25519, scalar *Bignum256) reachable from the multi-scalar routine (unrecognised shape)")
		return
	}
	m := geModel()
	loops := b.Loops(fn)
	hdr := map[*ssa.BasicBlock]bool{}
	for _, l := range loops {
		hdr[l.Header] = true
	}
	var bad []string
	note := func(s string) {
		if len(bad) < 5 {
			bad = append(bad, s)
		}
	}
	acc := func(pa *pt.Path) string {
		reset, y1, z1, copyP, other := false, false, false, false, false
		for _, e := range pa.Events {
			switch {
			case e.Callee == "store" && len(e.Args) == 1 && addrStr(e, 0) == "addr(P0)":
				if e.Args[0].String() == "P1" || e.Args[0].String() == "deref(P1)" {
					copyP, reset, y1, z1 = true, false, false, false
				} else {
					other = true
				}
			case strings.HasSuffix(e.Callee, ".Reset") && addrStr(e, 0) == "addr(P0)":
				reset, copyP, y1, z1 = true, false, false, false
			case e.Callee == "store" && len(e.Args) == 1 && e.Args[0].String() == "#1" && addrStr(e, 0) == "addr(local:P0.y,#0)":
				y1 = true
			case e.Callee == "store" && len(e.Args) == 1 && e.Args[0].String() == "#1" && addrStr(e, 0) == "addr(local:P0.z,#0)":
				z1 = true
			case e.Callee == "store" && strings.HasPrefix(addrStr(e, 0), "addr(local:P0"):
				other = true
			case e.Callee == "ge25519.Copy" || e.Callee == "curve25519.Copy":
				other = true
			}
		}
		switch {
		case other:
			return "other"
		case copyP:
			return "point"
		case reset && y1 && z1:
			return "neutral"
		case reset:
			return "all-zero"
		}
		return "unset"
	}
	pro, err := pt.EnumerateRegion(fn, m, nil, func(bb *ssa.BasicBlock) bool { return hdr[bb] })
	if err != nil {
		note("prologue: " + err.Error())
	}
	one, zero := "modm.IsOneVartime(P2)", "modm.IsZeroVartime(P2)"
	for w := 0; w < 4; w++ {
		world := map[string]bool{one: w&1 != 0, zero: w&2 != 0}
		if world[one] && world[zero] {
			continue
		}
		var hit []*pt.Path
		for _, pa := range pro {
			pt.NormalisePath(pa)
			ok := true
			for _, a := range pa.Atoms {
				v, known := world[a.Key]
				if !known {
					note("unrecognised test " + a.Key)
					ok = false
					break
				}
				if v != a.Val {
					ok = false
				}
			}
			if ok {
				hit = append(hit, pa)
			}
		}
		if len(hit) != 1 {
			note(fmt.Sprintf("scalar is one=%v zero=%v: %d paths", world[one], world[zero], len(hit)))
			continue
		}
		pa, st := hit[0], acc(hit[0])
		switch {
		case world[one]:
			if pa.Kind != "return" || st != "point" {
				note("scalar 1: the result is " + st + ", want the point itself")
			}
		case world[zero]:
			if pa.Kind != "return" || st != "neutral" {
				note("scalar 0: the result is " + st + ", want the neutral element (0, 1, 1, 0)")
			}
		default:
			if pa.Kind == "return" {
				note("a scalar other than 0 and 1 returns without the ladder")
			} else if st != "point" && st != "neutral" {
				note("the ladder starts from an accumulator that is " + st + ", not a group element (the point or the neutral element)")
			}
		}
	}
	// the ladder
	nl := 0
	for _, l := range loops {
		has := false
		for blk := range l.Blocks {
			for _, in := range blk.Instrs {
				if c, ok := in.(*ssa.Call); ok {
					if f := c.Common().StaticCallee(); f != nil && f.Name() == "Double" {
						has = true
					}
				}
			}
		}
		if !has {
			continue
		}
		// the ladder step is the innermost loop that doubles (an outer per-limb loop may wrap an inner per-bit loop)
		innerHas := false
		for _, in := range l.Inner {
			for blk := range in.Blocks {
				for _, ins := range blk.Instrs {
					if c, ok := ins.(*ssa.Call); ok {
						if f := c.Common().StaticCallee(); f != nil && f.Name() == "Double" {
							innerHas = true
						}
					}
				}
			}
		}
		if innerHas {
			continue
		}
		nl++
		ll := l
		ps, err := pt.EnumerateRegion(fn, m, l.Header, func(bb *ssa.BasicBlock) bool { return bb == ll.Header || !ll.Blocks[bb] })
		if err != nil {
			note("ladder: " + err.Error())
		}
		for _, pa := range ps {
			pt.NormalisePath(pa)
			bit, seenBit := false, false
			for _, a := range pa.Atoms {
				if strings.HasPrefix(a.Key, "eq(#0,and(P2[") {
					bit, seenBit = !a.Val, true
				}
			}
			var evs []string
			for _, e := range pa.Events {
				evs = append(evs, e.Callee+"("+addrStr(e, 0)+","+addrStr(e, 1)+","+addrStr(e, 2)+")")
			}
			if len(evs) == 0 && !seenBit {
				continue // the loop's exit test or limb bookkeeping: no scalar bit is consumed on this path
			}
			want := []string{"ge25519.Double(addr(P0),addr(P0),-)"}
			if bit {
				want = append(want, "ge25519.Add(addr(P0),addr(P0),addr(P1))")
			}
			if !seenBit || strings.Join(evs, ";") != strings.Join(want, ";") {
				note(fmt.Sprintf("ladder step with the scalar bit %v does %v, want %v", bit, evs, want))
			}
		}
	}
	if nl != 1 {
		note(fmt.Sprintf("%d ladder loops", nl))
	}
	r.Check(len(bad) == 0, "B9-final-ladder", cfg, "the final [s]P of the multi-scalar routine: s=1 gives P, s=0 the neutral element, otherwise a double-and-add ladder over an accumulator that is a group element", ssau.Pos(p, fn.Pos()),
		"three scalar cases and the ladder step compared with the specification", strings.Join(bad, "; "))
}

// initAllTrue: in fn, a loop runs its counter over the whole slice mk (range form, or 0 .. len-1) and stores true at the
// counter in every iteration. cell, when given, is the variable the slice is kept in (loads of it denote the slice).
func initAllTrue(fn *ssa.Function, mk *ssa.MakeSlice, cell *ssa.Alloc) bool {
	isSlice := func(v ssa.Value) bool {
		if v == ssa.Value(mk) {
			return true
		}
		if u, ok := v.(*ssa.UnOp); ok && u.Op == token.MUL && cell != nil && u.X == ssa.Value(cell) {
			return true
		}
		return false
	}
	for _, l := range b.Loops(fn) {
		ifi, ok := l.Header.Instrs[len(l.Header.Instrs)-1].(*ssa.If)
		if !ok {
			continue
		}
		cmp, ok := ifi.Cond.(*ssa.BinOp)
		if !ok || cmp.Op != token.LSS {
			continue
		}
		// bound: len(slice) or the make's own length
		okBound := cmp.Y == mk.Len
		if c, ok := cmp.Y.(*ssa.Call); ok {
			if bn, ok := c.Common().Value.(*ssa.Builtin); ok && bn.Name() == "len" && isSlice(c.Common().Args[0]) {
				okBound = true
			}
		}
		if !okBound {
			continue
		}
		// counter: phi from 0 stepping by 1 compared directly, or the range form (phi from -1, phi+1 compared)
		okCtr := false
		switch x := cmp.X.(type) {
		case *ssa.Phi:
			for _, e := range x.Edges {
				if n, ok := constInt(e); ok && n == 0 {
					okCtr = true
				}
			}
		case *ssa.BinOp:
			if ph, ok := x.X.(*ssa.Phi); ok && x.Op == token.ADD {
				for _, e := range ph.Edges {
					if n, ok := constInt(e); ok && n == -1 {
						okCtr = true
					}
				}
			}
		}
		if !okCtr {
			continue
		}
		for blk := range l.Blocks {
			for _, in := range blk.Instrs {
				st, ok := in.(*ssa.Store)
				if !ok {
					continue
				}
				c, isC := st.Val.(*ssa.Const)
				ia, isIA := st.Addr.(*ssa.IndexAddr)
				if !isC || !isIA || c.Value == nil || c.Value.String() != "true" || !isSlice(ia.X) || ia.Index != cmp.X {
					continue
				}
				// every iteration: the store's block dominates every back edge
				dom := true
				for _, pred := range l.Header.Preds {
					if l.Blocks[pred] && !blk.Dominates(pred) {
						dom = false
					}
				}
				if dom {
					return true
				}
			}
		}
	}
	return false
}

// ruleLimbSizeArgs (B10-limb-size): the variable-time scalar helpers compare / subtract limbs limbSize..0. In the
// multi-scalar family every constant that reaches their limbSize parameter — directly, or as the start of a counter
// that is only ever decremented — must be LimbSize-1 of the selected scalar layout. Checked on every configuration:
// on the 5-limb layout a literal 4 and LimbSize-1 are the same constant, on the 9-limb layout they are not.
func ruleLimbSizeArgs(r *rep.Report, p *load.Program, rl *roles.Roles) {
	cfg := p.Cfg.Name
	if rl == nil || rl.Msm == nil {
		return
	}
	_, n, _ := modmLayout(p)
	if n == 0 {
		return
	}
	want := int64(n - 1)
	mod, _, _ := ssau.Reachable(rl.Msm)
	var bad []string
	sites := 0
	var judge func(v ssa.Value, depth int, where string)
	judge = func(v ssa.Value, depth int, where string) {
		if depth > 6 {
			return
		}
		switch x := v.(type) {
		case *ssa.Const:
			if c, ok := constInt(x); ok && c != want {
				bad = append(bad, fmt.Sprintf("%s: constant %d, want LimbSize-1 = %d", where, c, want))
			}
		case *ssa.Phi:
			for _, e := range x.Edges {
				if bo, ok := e.(*ssa.BinOp); ok && bo.X == ssa.Value(x) {
					continue // the counter's own decrement
				}
				if e != ssa.Value(x) {
					judge(e, depth+1, where)
				}
			}
		case *ssa.BinOp:
			if x.Op == token.SUB {
				if c, ok := constInt(x.Y); ok && c >= 0 {
					if _, isPhi := x.X.(*ssa.Phi); isPhi {
						judge(x.X, depth+1, where)
					}
				}
			}
		case *ssa.Parameter:
			fn := x.Parent()
			idx := -1
			for i, prm := range fn.Params {
				if prm == x {
					idx = i
				}
			}
			for _, g := range mod {
				for _, blk := range g.Blocks {
					for _, in := range blk.Instrs {
						if c, ok := in.(ssa.CallInstruction); ok && c.Common().StaticCallee() == fn && idx >= 0 && idx < len(c.Common().Args) {
							judge(c.Common().Args[idx], depth+1, where+" <- "+g.Name())
						}
					}
				}
			}
		}
	}
	for _, fn := range mod {
		if fn.Pkg != rl.Msm.Pkg {
			continue
		}
		for _, blk := range fn.Blocks {
			for _, in := range blk.Instrs {
				c, ok := in.(*ssa.Call)
				if !ok {
					continue
				}
				cal := c.Common().StaticCallee()
				if cal == nil || ssau.PkgSuffix(cal) != "internal/modm" {
					continue
				}
				switch cal.Name() {
				case "LessThanVartime", "LessThanOrEqualVartime", "SubVartime":
					sites++
					args := c.Common().Args
					judge(args[len(args)-1], 0, fn.Name()+" -> modm."+cal.Name()+" at "+ssau.InstrPos(p, c))
				}
			}
		}
	}
	if len(bad) > 4 {
		bad = bad[:4]
	}
	r.Check(len(bad) == 0 && sites > 0, "B10-limb-size", cfg, "every constant limb count handed to the variable-time scalar helpers by the multi-scalar family is LimbSize-1 of this layout", ssau.Pos(p, rl.Msm.Pos()),
		fmt.Sprintf("%d call sites; constants traced through counters and helper parameters", sites), strings.Join(bad, "; ")+map[bool]string{true: "", false: " (no call site found)"}[sites > 0])
}
