package main

import (
	"fmt"
	"math/big"
	"sort"
	"strings"

	"go/types"

	"golang.org/x/tools/go/ssa"

	"verif/internal/absint"
	"verif/internal/load"
	"verif/internal/rep"
	"verif/internal/ssau"
)

// Engine X (exact algebra): every leaf field operation is evaluated once per operand-magnitude class with its input
// limbs as polynomial variables; the interpreter carries, next to each interval, the exact integer polynomial of the
// value (a dropped high part becomes a fresh carry variable shared by `x >> k` and `x & (2^k-1)`, so splitting a value
// loses nothing, and a masked-off carry that is never added back stays in the difference). The obligation is the
// polynomial identity  Σ out_i·2^w_i − spec(a, b) ≡ 0 (mod p)  coefficient by coefficient.

var fieldSpecs = map[string]string{
	"Add": "add", "AddAfterBasic": "add", "AddReduce": "add",
	"Sub": "sub", "SubAfterBasic": "sub", "SubReduce": "sub",
	"Neg": "neg", "Mul": "mul", "Square": "sq", "SquareTimes": "sq", "Copy": "copy",
}

var fieldPrime = new(big.Int).Sub(new(big.Int).Lsh(big.NewInt(1), 255), big.NewInt(19))

func weighted(ps []*absint.Poly, weights []int) *absint.Poly {
	r := absint.PolyConst(new(big.Int))
	for i, p := range ps {
		if p == nil {
			return nil
		}
		r = absint.PolyAdd(r, absint.PolyScale(p, new(big.Int).Lsh(big.NewInt(1), uint(weights[i]))), 1)
	}
	return r
}

// exactIdentity returns "" when Σ out·2^w ≡ spec (mod p), otherwise a description of the residue.
func exactIdentity(spec string, out, a, b []*absint.Poly, weights []int) string {
	o := weighted(out, weights)
	if o == nil {
		for i, p := range out {
			if p == nil {
				return fmt.Sprintf("output limb %d has no exact value (a step that may wrap, or an operation outside the exact fragment)", i)
			}
		}
	}
	A := weighted(a, weights)
	var want *absint.Poly
	switch spec {
	case "copy":
		want = A
	case "neg":
		want = absint.PolyScale(A, big.NewInt(-1))
	case "sq":
		want = absint.PolyMul(A, A)
	default:
		B := weighted(b, weights)
		if B == nil {
			return "second operand has no variables"
		}
		switch spec {
		case "add":
			want = absint.PolyAdd(A, B, 1)
		case "sub":
			want = absint.PolyAdd(A, B, -1)
		case "mul":
			want = absint.PolyMul(A, B)
		}
	}
	if want == nil {
		return "specification polynomial too large"
	}
	d := absint.PolyAdd(o, want, -1).ReduceCoeffs(fieldPrime)
	if d.IsZero() {
		return ""
	}
	return "residue modulo p: " + centred(d)
}

// centred renders a residue with coefficients in (-p/2, p/2] and powers of two spelled out.
func centred(d *absint.Poly) string {
	half := new(big.Int).Rsh(fieldPrime, 1)
	var ms []string
	for m := range d.T {
		ms = append(ms, m)
	}
	sort.Strings(ms)
	var parts []string
	for i, m := range ms {
		if i >= 4 {
			parts = append(parts, "…")
			break
		}
		c := new(big.Int).Set(d.T[m])
		sign := ""
		if c.Cmp(half) > 0 {
			c.Sub(fieldPrime, c)
			sign = "-"
		}
		cs := c.String()
		if c.BitLen() > 16 {
			if c.BitLen()-1 == int(c.TrailingZeroBits()) {
				cs = fmt.Sprintf("2^%d", c.BitLen()-1)
			} else {
				cs = "0x" + c.Text(16)
			}
		}
		if m == "" {
			parts = append(parts, sign+cs)
		} else {
			parts = append(parts, sign+cs+"·"+m)
		}
	}
	return strings.Join(parts, " + ") + " (a variable cN is a high part that was shifted or masked off and not added back; aK/bK are input limbs)"
}

// exactLeaf runs inside the leaf-summary cache miss of the magnitude driver: called before (pre) and after (post) the
// abstract run of a leaf field function.
type exactRun struct {
	spec string
	in   [][]*absint.Poly // per pointer argument
	objs []int
}

func (d *magDriver) exactPre(it *absint.Interp, f *ssa.Function, args []absint.AnyVal, ptrs []int) *exactRun {
	spec, ok := fieldSpecs[f.Name()]
	if !ok || d.weights == nil {
		return nil
	}
	if f.Name() == "SquareTimes" {
		c, ok := args[len(args)-1].(absint.Val)
		if !ok || !c.IsConst() || c.Int64() != 1 {
			return nil
		}
	}
	er := &exactRun{spec: spec, objs: ptrs}
	named := map[int][]*absint.Poly{}
	for k, pid := range ptrs {
		if ps, ok := named[pid]; ok {
			er.in = append(er.in, ps)
			continue
		}
		o := it.St.Objs[pid]
		ps := make([]*absint.Poly, len(o.Vals))
		for j := range o.Vals {
			ps[j] = absint.PolyVar(fmt.Sprintf("%c%d", 'a'+k, j))
			v := o.Vals[j]
			if !v.IsConst() {
				v.Poly = ps[j]
			} else {
				ps[j] = absint.PolyConst(v.Lo)
			}
			o.Vals[j] = v
		}
		named[pid] = ps
		er.in = append(er.in, ps)
	}
	return er
}

func (d *magDriver) exactPost(it *absint.Interp, f *ssa.Function, er *exactRun, key string) {
	if er == nil {
		return
	}
	var out []*absint.Poly
	for _, v := range it.St.Objs[er.objs[0]].Vals {
		p := v.Poly
		if p == nil && v.IsConst() && v.Lo.Sign() >= 0 {
			p = absint.PolyConst(v.Lo)
		}
		out = append(out, p)
	}
	// polynomials must not leak into the caller's computation
	for _, pid := range er.objs {
		o := it.St.Objs[pid]
		for j := range o.Vals {
			o.Vals[j].Poly = nil
		}
	}
	var a, b []*absint.Poly
	if len(er.in) > 1 {
		a = er.in[1]
	}
	if len(er.in) > 2 {
		b = er.in[2]
	}
	if a == nil || len(out) != len(d.weights) {
		return
	}
	d.exactN++
	if msg := exactIdentity(er.spec, out, a, b, d.weights); msg != "" {
		k := "exact|" + f.Name()
		if _, seen := d.exact[k]; !seen {
			d.exact[k] = fmt.Sprintf("curve25519.%s is not the field operation %q on its limbs for operand magnitudes %s: %s", f.Name(), er.spec, shortKey(key), msg)
			d.exactPos[k] = f
		}
	} else {
		d.exactOK[f.Name()]++
	}
}

func shortKey(k string) string {
	parts := strings.Split(k, "|")
	var out []string
	for _, p := range parts[1:] {
		m := 0
		for _, lim := range strings.Split(p, ",") {
			if i := strings.LastIndex(lim, "-"); i >= 0 {
				if n, ok := new(big.Int).SetString(lim[i+1:], 16); ok && n.BitLen() > m {
					m = n.BitLen()
				}
			}
		}
		out = append(out, fmt.Sprintf("<2^%d", m))
	}
	return strings.Join(out, ",")
}

func sortedKeys(m map[string]int) []string {
	var ks []string
	for k := range m {
		ks = append(ks, k)
	}
	sort.Strings(ks)
	return ks
}

// reportExact emits the X obligations: one per field operation with a specification.
func (d *magDriver) reportExact() {
	cfg := d.p.Cfg.Name
	var names []string
	for n := range fieldSpecs {
		names = append(names, n)
	}
	sort.Strings(names)
	for _, n := range names {
		k := "exact|" + n
		if msg, bad := d.exact[k]; bad {
			d.r.Fail("X-exact-algebra", cfg, "curve25519."+n+" computes "+fieldSpecs[n]+" modulo p exactly (polynomial identity over the limbs, every magnitude class of the group law)", posOfFn(d.p, d.exactPos[k]), "exact:"+n, msg)
			continue
		}
		if d.exactOK[n] > 0 {
			d.r.OK("X-exact-algebra", cfg, "curve25519."+n+" computes "+fieldSpecs[n]+" modulo p exactly (polynomial identity over the limbs, every magnitude class of the group law)",
				fmt.Sprintf("%d operand-magnitude classes, identity holds coefficient-wise modulo 2^255-19", d.exactOK[n]))
		}
	}
	for k, msg := range d.exact {
		n := strings.TrimPrefix(k, "exact|")
		if _, isSpec := fieldSpecs[n]; !isSpec {
			d.r.Fail("X-exact-algebra", cfg, "curve25519 "+n, posOfFn(d.p, d.exactPos[k]), "exact:"+n, msg)
		}
	}
	d.r.Count("exact-identities", d.exactN)
}

func posOfFn(p *load.Program, f *ssa.Function) string {
	if f == nil {
		return ""
	}
	return ssau.Pos(p, f.Pos())
}

// squareInduction covers SquareTimes(out, in, n) for n > 1: the loop body is one squaring, so the identity is checked
// for n = 1 on the operand's magnitude class and then on the class of its own output, until that class is stable; every
// iteration of the real call then works on a class for which the one-step identity (and the magnitude rule) holds.
func (d *magDriver) squareInduction(it *absint.Interp, f *ssa.Function, args []absint.AnyVal) {
	if d.weights == nil || f.Name() != "SquareTimes" || len(args) != 3 {
		return
	}
	c, ok := args[2].(absint.Val)
	if !ok || !c.IsConst() || c.Int64() <= 1 {
		return
	}
	inp, ok := args[1].(absint.PtrV)
	if !ok {
		return
	}
	el := f.Params[0].Type().Underlying().(*types.Pointer).Elem()
	src := it.St.Objs[inp.Obj]
	bounds := make([]*big.Int, len(src.Vals))
	for j, v := range src.Vals {
		bounds[j] = v.Hi
	}
	for round := 0; round < 8; round++ {
		oin := it.St.Alloc("sq.in", el, true)
		oout := it.St.Alloc("sq.out", el, true)
		for j := range it.St.Objs[oin].Vals {
			v := absint.Range(new(big.Int), bounds[j], src.W, false)
			v.Sym = absint.FreshSym("t", src.W)
			it.St.Objs[oin].Vals[j] = v
		}
		d.cached(it, f, []absint.AnyVal{absint.PtrV{Obj: oout, Idx: -1}, absint.PtrV{Obj: oin, Idx: -1}, absint.ConstInt(1, 64, true)})
		if it.Err != nil {
			return
		}
		changed := false
		for j, v := range it.St.Objs[oout].Vals {
			if v.Hi.Cmp(bounds[j]) > 0 {
				bounds[j] = v.Hi
				changed = true
			}
		}
		if !changed {
			return
		}
	}
	d.exact["exact|SquareTimes-induction"] = "the magnitude class of repeated squaring does not stabilise"
	d.exactPos["exact|SquareTimes-induction"] = f
}

// ruleExponentChains (X): Recip and PowTwo252m3 are addition chains over Mul / Square / SquareTimes; with each field
// element replaced by the exponent of z it holds, the chain must end at p-2 resp. (p-5)/8 = 2^252-3.
func ruleExponentChains(r *rep.Report, p *load.Program) {
	cfg := p.Cfg.Name
	want := map[string]*big.Int{
		"Recip":       new(big.Int).Sub(fieldPrime, big.NewInt(2)),
		"PowTwo252m3": new(big.Int).Sub(new(big.Int).Lsh(big.NewInt(1), 252), big.NewInt(3)),
	}
	for _, name := range []string{"Recip", "PowTwo252m3"} {
		fn := ssau.Func(p, "internal/curve25519", name)
		if fn == nil {
			r.Fail("X-exponent-chain", cfg, "curve25519."+name+" exists", "", "chain:"+name, "function not found")
			continue
		}
		exp := map[int]*big.Int{}
		var bad []string
		steps := 0
		obj := func(a absint.AnyVal) int {
			if pv, ok := a.(absint.PtrV); ok && pv.Idx == -1 {
				return pv.Obj
			}
			return -1
		}
		it := absint.NewInterp(absint.Hooks{Modular: func(*ssa.Function) bool { return true }, Summary: func(it *absint.Interp, f *ssa.Function, args []absint.AnyVal, call ssa.Instruction) (absint.AnyVal, bool) {
			if ssau.PkgSuffix(f) != "internal/curve25519" {
				return nil, false
			}
			get := func(i int) *big.Int {
				e, ok := exp[obj(args[i])]
				if !ok {
					bad = append(bad, fmt.Sprintf("%s reads an operand that holds no power of z (%s)", f.Name(), ssau.InstrPos(p, call)))
					return new(big.Int)
				}
				return e
			}
			switch f.Name() {
			case "Mul":
				steps++
				exp[obj(args[0])] = new(big.Int).Add(get(1), get(2))
				return nil, true
			case "Square":
				steps++
				exp[obj(args[0])] = new(big.Int).Lsh(get(1), 1)
				return nil, true
			case "SquareTimes":
				c, ok := args[2].(absint.Val)
				if !ok || !c.IsConst() || c.Int64() < 1 {
					bad = append(bad, "SquareTimes with a non-constant or non-positive count at "+ssau.InstrPos(p, call))
					return nil, true
				}
				steps++
				exp[obj(args[0])] = new(big.Int).Lsh(get(1), uint(c.Int64()))
				return nil, true
			case "Copy":
				exp[obj(args[0])] = get(1)
				return nil, true
			}
			if len(f.Blocks) > 0 && f.Signature.Recv() == nil {
				switch f.Name() {
				case "Add", "Sub", "AddReduce", "SubReduce", "AddAfterBasic", "SubAfterBasic", "Neg", "Expand", "Contract", "SwapConditional":
					bad = append(bad, "unexpected field operation "+f.Name()+" in an exponentiation chain")
					return nil, true
				}
			}
			return nil, false // helpers of the chain are entered
		}})
		el := fn.Params[0].Type().Underlying().(*types.Pointer).Elem()
		out := it.St.Alloc("out", el, true)
		z := it.St.Alloc("z", el, true)
		exp[z] = big.NewInt(1)
		it.Call(fn, []absint.AnyVal{absint.PtrV{Obj: out, Idx: -1}, absint.PtrV{Obj: z, Idx: -1}}, nil)
		if it.Err != nil {
			bad = append(bad, it.Err.Error())
		}
		got := exp[out]
		if got == nil {
			bad = append(bad, "the result is never written by a field multiplication")
		} else if got.Cmp(want[name]) != 0 {
			bad = append(bad, fmt.Sprintf("the chain ends at exponent 0x%s, want 0x%s", got.Text(16), want[name].Text(16)))
		}
		if e := exp[z]; e == nil || e.Cmp(big.NewInt(1)) != 0 {
			bad = append(bad, "the input operand is overwritten")
		}
		if len(bad) > 3 {
			bad = bad[:3]
		}
		r.Check(len(bad) == 0, "X-exponent-chain", cfg, "curve25519."+name+" raises z to "+map[string]string{"Recip": "p-2", "PowTwo252m3": "(p-5)/8 = 2^252-3"}[name], ssau.Pos(p, fn.Pos()),
			fmt.Sprintf("%d multiplications / squaring runs tracked by exponent", steps), strings.Join(bad, "; "))
	}
}
