package main

import (
	"fmt"
	"go/ast"
	"go/types"
	"os"
	"sort"
	"strings"
	"time"

	"verif/internal/load"
	"verif/internal/mem"
	"verif/internal/rep"
	"verif/internal/ssau"
)

func init() { register("C08", "other", checkC08) }

// ruleConfigSelection (K1): each configuration selects the variant its GOARCH / tags call for, judged by what the selected
// code IS (limb counts, presence of the assembly stub, use of unsafe in the conditional move) and not by file names, so
// renaming or splitting the tagged files changes nothing. (Two variants or none selected is a type-check error, i.e. a
// load failure.)
func ruleConfigSelection(r *rep.Report, p *load.Program) {
	cfg := p.Cfg.Name
	arrLen := func(pkgSuffix, typeName string) int64 {
		pkg := p.Pkg(pkgSuffix)
		if pkg == nil {
			return -1
		}
		o := pkg.Types.Scope().Lookup(typeName)
		if o == nil {
			return -1
		}
		if at, ok := o.Type().Underlying().(*types.Array); ok {
			return at.Len()
		}
		return -1
	}
	sel := func(ok bool, what, got, want string) {
		r.Check(ok, "K1-selection", cfg, what+": the variant this configuration calls for is compiled", "", got, fmt.Sprintf("%s: selected %s, expected %s (build constraints of the variants disagree with the configuration)", what, got, want))
	}
	field := arrLen("internal/curve25519", "Bignum25519")
	wantField := int64(5)
	if p.Cfg.Limb32 {
		wantField = 10
	}
	sel(field == wantField, "field limb layout", fmt.Sprintf("%d limbs", field), fmt.Sprintf("%d limbs", wantField))
	scal := arrLen("internal/modm", "Bignum256")
	wantScal := int64(5)
	if p.Cfg.Limb32 {
		wantScal = 9
	}
	sel(scal == wantScal, "scalar limb layout", fmt.Sprintf("%d limbs", scal), fmt.Sprintf("%d limbs", wantScal))
	// the assembly selector works on 5x51 limbs: it must be present exactly where the matrix expects it
	asm := ssau.Func(p, "internal/ge25519", "scalarmultBaseChooseNielsAMD64") != nil
	hasS := false
	for _, f := range p.Files[load.ModPath+"/internal/ge25519"] {
		if strings.HasSuffix(f, ".s") {
			hasS = true
		}
	}
	sel(asm == p.Cfg.AsmSel, "table selector", map[bool]string{true: "assembly stub declared", false: "reference selector only"}[asm], map[bool]string{true: "assembly", false: "reference"}[p.Cfg.AsmSel])
	if p.Cfg.AsmSel {
		sel(hasS, "table selector", "no assembly source among the package's files", "the .s file")
	}
	// the conditional move: the variant that reinterprets memory through unsafe, or the subtle one
	usesUnsafe, found := false, false
	if pkg := p.Pkg("internal/ge25519"); pkg != nil {
		for _, file := range pkg.Syntax {
			has := false
			for _, d := range file.Decls {
				if fd, ok := d.(*ast.FuncDecl); ok && fd.Name.Name == ssau.Actual(p, "internal/ge25519", "moveConditionalBytes") && fd.Recv == nil {
					has = true
				}
			}
			if !has {
				continue
			}
			found = true
			for _, imp := range file.Imports {
				if imp.Path.Value == "\"unsafe\"" {
					usesUnsafe = true
				}
			}
		}
	}
	if found {
		sel(usesUnsafe == p.Cfg.UnsafeMov, "conditional move", map[bool]string{true: "unsafe word moves", false: "crypto/subtle"}[usesUnsafe], map[bool]string{true: "unsafe word moves", false: "crypto/subtle"}[p.Cfg.UnsafeMov])
	} else {
		r.Fail("K1-selection", cfg, "conditional move: moveConditionalBytes is defined", "", "k1:cmov", "moveConditionalBytes not found in internal/ge25519")
	}
	r.Count("files", len(p.Files[load.ModPath+"/internal/ge25519"]))
}

// apiOf lists exported package-level objects and methods with their types.
func apiOf(p *load.Program, suffix string) map[string]string {
	out := map[string]string{}
	pkg := p.Pkg(suffix)
	q := func(o *types.Package) string { return o.Name() }
	sigStr := func(t types.Type) string { // parameter names are not part of the API
		sg, ok := t.(*types.Signature)
		if !ok {
			return types.TypeString(t, q)
		}
		var ps, rs []string
		for i := 0; i < sg.Params().Len(); i++ {
			ps = append(ps, types.TypeString(sg.Params().At(i).Type(), q))
		}
		for i := 0; i < sg.Results().Len(); i++ {
			rs = append(rs, types.TypeString(sg.Results().At(i).Type(), q))
		}
		return "func(" + strings.Join(ps, ", ") + ") (" + strings.Join(rs, ", ") + ")"
	}
	sc := pkg.Types.Scope()
	for _, n := range sc.Names() {
		o := sc.Lookup(n)
		if !o.Exported() {
			continue
		}
		switch x := o.(type) {
		case *types.Func:
			out["func "+n] = sigStr(x.Type())
		case *types.TypeName:
			out["type "+n] = "type"
			for _, t := range []types.Type{x.Type(), types.NewPointer(x.Type())} {
				ms := types.NewMethodSet(t)
				for i := 0; i < ms.Len(); i++ {
					m := ms.At(i).Obj()
					if m.Exported() {
						out["method "+n+"."+m.Name()] = sigStr(m.Type())
					}
				}
			}
		case *types.Const:
			out["const "+n] = "const"
		case *types.Var:
			out["var "+n] = "var"
		}
	}
	return out
}

// ruleSiblingAPI (K2): the configurations export the same API from the layout-dependent packages.
func ruleSiblingAPI(r *rep.Report, ref, p *load.Program) {
	for _, s := range []string{"internal/curve25519", "internal/modm", "internal/ge25519", "", "extra/x25519"} {
		a, b := apiOf(ref, s), apiOf(p, s)
		var diff []string
		for k, v := range a {
			if b[k] != v {
				diff = append(diff, fmt.Sprintf("%s: %q vs %q", k, v, b[k]))
			}
		}
		for k, v := range b {
			if _, ok := a[k]; !ok {
				diff = append(diff, fmt.Sprintf("%s: missing vs %q", k, v))
			}
		}
		sort.Strings(diff)
		r.Check(len(diff) == 0, "K2-sibling-api", p.Cfg.Name, "package "+s+" exports the same API as in "+ref.Cfg.Name, s, fmt.Sprintf("%d exported objects", len(a)), fmt.Sprintf("API differs: %v", diff))
	}
}

func timed(name string, f func()) {
	t0 := time.Now()
	f()
	if os.Getenv("EDCHECK_TIMING") != "" {
		fmt.Fprintf(os.Stderr, "TIMING %-24s %.2fs\n", name, time.Since(t0).Seconds())
	}
}

func checkC08(c *Ctx, r *rep.Report) {
	r.Explanation = "K1: every configuration of the matrix loads, type-checks and compiles exactly the expected member of each sibling-file group (limb layout x3, table selector, conditional move); K2: all configurations export the same API; K3/A: layout constants are consistent and the 64- and 32-bit constants and tables denote the same field elements / points (each equals the independently recomputed value); structural arithmetic rules (unrolled-stage uniformity, partial-product coverage, magnitude analysis) hold on both limb layouts; Z: the assembly selector; T and M hold per configuration (C20, C15)."
	r.NotDecided = "observational equality of outputs on all inputs is numeric; the rules decide the necessary conditions a backend-confined divergence would have to break (wrong selection, wrong constant, lost carry, non-uniform stage, secret-dependent or stateful variant)"
	c.Preload(c.Configs())
	var ref *load.Program
	for _, cfg := range c.Configs() {
		p, prl := c.mustLoad(r, cfg)
		if p == nil {
			continue
		}
		if ref == nil {
			ref = p
		} else {
			ruleSiblingAPI(r, ref, p)
		}
		ruleConfigSelection(r, p)
		ruleLimbSizeArgs(r, p, prl)
		timed("fieldconst", func() { ruleFieldConstants(r, p) })
		timed("tables", func() { ruleTables(r, p) })
		ruleScalarConstants(r, p)
		ruleAsm(r, p)
		timed("unrolled", func() { ruleArithStructure(r, p) })
		timed("selector", func() { ruleSelector(r, p) })
		ruleSwap(r, p)
		ruleCmov(r, p)
		timed("bitorigin", func() { ruleBitOrigin(r, p, "modm"); ruleBitOrigin(r, p, "curve25519") })
		ruleVartimePredicates(r, p)
		timed("magnitudes+exact", func() {
			ruleMagnitudes(r, p, "curve25519")
			ruleMagnitudes(r, p, "modm")
			ruleExponentChains(r, p)
			ruleExactModm(r, p)
			ruleOutputDefined(r, p)
		})
	}
}

func init() {
	register("C16", "other", checkC16)
	register("C18", "other", checkC18)
	register("C19", "other", checkC19)
}

func checkC16(c *Ctx, r *rep.Report) {
	r.Explanation = "A: both precomputed tables are exactly the documented multiples of B (256 + 32 entries recomputed with independent big-integer arithmetic on every configuration); S: digit-to-table schedule of the fixed-base and double-base loops; finite evaluation of the table selector over its complete digit x position domain; U: unrolled conditional-move stages are uniform; Z: the assembly selector; M1: no scratch table is shared between calls."
	r.NotDecided = "that the schedule composed with the group law yields [s]B and [s1]P+[s2]B for all scalars (group-law algebra and recoding exactness are numeric)"
	c.Preload(c.Configs())
	for _, cfg := range c.Configs() {
		p, _ := c.mustLoad(r, cfg)
		if p == nil {
			continue
		}
		ruleFieldConstants(r, p)
		ruleTables(r, p)
		ruleAsm(r, p)
		ruleUnrolledChains(r, p)
		ruleSelector(r, p)
		ruleSwap(r, p)
		ruleCmov(r, p)
		ruleSchedules(r, p)
		ruleBitOrigin(r, p, "modm")
		ruleGlobalWrites(r, p, mem.New())
		ruleExactWindow4(r, p)
		ruleMagnitudes(r, p, "curve25519")
	}
}

func checkC18(c *Ctx, r *rep.Report) {
	r.Explanation = "X: exact algebra — every leaf field operation (Add/Sub/Neg and their AfterBasic/Reduce forms, Mul, Square, one step of SquareTimes with induction over its magnitude class, Copy) satisfies the polynomial identity sum(out_i*2^w_i) = spec(a,b) mod 2^255-19 coefficient by coefficient, for every operand-magnitude class the group law produces, with dropped high parts tracked as carry variables; Recip and PowTwo252m3 are addition chains ending at p-2 and 2^252-3; A: bias constants are 2p/4p with every limb dominating a reduced limb, masks are the limb masks; U: the unrolled carry/borrow chains of Add/Sub/Neg/...Reduce and SwapConditional are uniform stage by stage; R: interval + bit-provenance abstract interpretation of the field package under the magnitudes that reach it (no lost carry, no overflow, no borrow, lossless narrowing); bit-origin: Expand ignores bit 255 and Contract/Expand are inverse bit permutations on reduced inputs — on both limb layouts."
	r.NotDecided = "the canonicalisation argument of Contract (that its output is the unique representative below p for every input representation) is relational and not decided; Expand/Contract are decided as bit permutations on reduced inputs only"
	c.Preload(c.Configs())
	for _, cfg := range c.Configs() {
		p, _ := c.mustLoad(r, cfg)
		if p == nil {
			continue
		}
		ruleFieldConstants(r, p)
		ruleUnrolledChains(r, p)
		ruleBitOrigin(r, p, "curve25519")
		ruleSwap(r, p)
		ruleMagnitudes(r, p, "curve25519")
		ruleExponentChains(r, p)
		ruleOutputDefined(r, p)
	}
}

func checkC19(c *Ctx, r *rep.Report) {
	r.Explanation = "A: m = L and mu = floor(2^512/L) on both layouts; U: the borrow chains of the conditional subtraction and of the Barrett tail are uniform stage by stage, stage i subtracts limb i of L and the top stage compensates at the top limb's width; P: Expand skips the reduction only for inputs shorter than 32 bytes; bit-origin: ExpandRaw/Expand/Contract are exact bit (de)serialisations and the radix-16 / binary digit extraction of the recodings covers every bit exactly once; R: accumulators cannot overflow and discarded carries are zero."
	r.NotDecided = "that the Barrett estimate plus two conditional subtractions yields the canonical residue and that the signed recodings represent their input (value-relational)"
	c.Preload(c.Configs())
	for _, cfg := range c.Configs() {
		p, _ := c.mustLoad(r, cfg)
		if p == nil {
			continue
		}
		ruleScalarConstants(r, p)
		ruleUnrolledChains(r, p)
		ruleExpandLengths(r, p)
		ruleBitOrigin(r, p, "modm")
		ruleVartimePredicates(r, p)
		ruleExactModm(r, p)
		ruleExactWindow4(r, p)
		ruleOutputDefined(r, p)
		ruleMagnitudes(r, p, "modm")
	}
}

// scalarLayer runs the structural rules of the scalar package on every configuration of the tier; the root-package
// properties whose statements involve "mod L" (C01-C04) include it because their anchors do.
func scalarLayer(c *Ctx, r *rep.Report) {
	for _, cfg := range c.Configs() {
		if cfg == "amd64-noasm" {
			continue // same scalar files as amd64-default
		}
		p, _ := c.mustLoad(r, cfg)
		if p == nil {
			continue
		}
		ruleScalarConstants(r, p)
		ruleUnrolledChains(r, p)
		ruleExpandLengths(r, p)
		ruleBitOrigin(r, p, "modm")
		ruleVartimePredicates(r, p)
		ruleExactModm(r, p)
		ruleExactWindow4(r, p)
	}
}
