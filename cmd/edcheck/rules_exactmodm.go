package main

import (
	"fmt"
	"math/big"
	"os"
	"strings"

	"golang.org/x/tools/go/ssa"

	"verif/internal/absint"
	"verif/internal/load"
	"verif/internal/rep"
	"verif/internal/ssau"
)

var groupOrder = func() *big.Int {
	l, _ := new(big.Int).SetString("27742317777372353535851937790883648493", 10)
	return l.Add(l, new(big.Int).Lsh(big.NewInt(1), 252))
}()

// reduceMod returns nil when every coefficient of d is divisible by m, otherwise the residue rendered.
func residueMod(d *absint.Poly, m *big.Int) string {
	if d == nil {
		return "no exact value"
	}
	r := d.ReduceCoeffs(m)
	if r.IsZero() {
		return ""
	}
	return r.String()
}

// ruleExactModm (X, scalar side): polynomial identities for the scalar arithmetic, with the borrow bits of the
// conditional-subtraction chains as 0/1 variables (B·B = B) and wrapping intermediates of the recognised borrow idiom
// carried modulo 2^W:
//
//	reduce(r):            Σ out ≡ Σ r                    (mod L)   [select between r and r − L + B·2^256 by the final borrow]
//	Add(r, x, y):         Σ out ≡ X + Y                  (mod L)
//	Mul(r, x, y):         r1 ≡ X·Y (mod 2^264)  and  (r1 mod 2^248) + 2^248·q1 = X·Y   at the call of barrettReduce
//	barrettReduce(r,q1,r1): r2 ≡ q3·L (mod 2^264) for the two scratch arrays, r ≡ r1 − r2 (mod 2^264) when reduce is
//	                      first called, and reduce is called exactly twice.
//
// Not decided: that q3 is within 2 of the true quotient (the estimate), hence that two conditional subtractions suffice.
func ruleExactModm(r *rep.Report, p *load.Program) {
	cfg := p.Cfg.Name
	if r.Extra["once:exactmodm:"+cfg] != nil {
		return
	}
	r.Extra["once:exactmodm:"+cfg] = true
	bpl, n, w := modmLayout(p)
	if n == 0 {
		return
	}
	weights := make([]int, n)
	for i := range weights {
		weights[i] = i * bpl
	}
	input := func(it *absint.Interp, name string, totalBits int) (absint.PtrV, []*absint.Poly) {
		o := &absint.Object{Name: name, Kind: "arr", W: w}
		var ps []*absint.Poly
		for i := 0; i < n; i++ {
			bits := totalBits - i*bpl
			if bits > bpl {
				bits = bpl
			}
			if bits < 0 {
				bits = 0
			}
			v := absint.Range(new(big.Int), new(big.Int).Sub(new(big.Int).Lsh(big.NewInt(1), uint(bits)), big.NewInt(1)), w, false)
			if !v.IsConst() {
				v.Sym = absint.FreshSym(fmt.Sprintf("%s[%d]", name, i), w)
				v.Poly = absint.PolyVar(fmt.Sprintf("%s%d", name, i))
			}
			ps = append(ps, polyOfVal(v))
			o.Vals = append(o.Vals, v)
		}
		it.St.Objs = append(it.St.Objs, o)
		return absint.PtrV{Obj: len(it.St.Objs) - 1, Idx: -1}, ps
	}
	outPolys := func(it *absint.Interp, pv absint.PtrV) []*absint.Poly {
		var ps []*absint.Poly
		for _, v := range it.St.Objs[pv.Obj].Vals {
			if v.PolyMod {
				ps = append(ps, nil)
				continue
			}
			ps = append(ps, polyOfVal(v))
		}
		return ps
	}
	all := func(*ssa.Function) bool { return true }
	check := func(ok bool, subject string, fn *ssa.Function, how, msg string) {
		r.Check(ok, "X-exact-algebra", cfg, subject, ssau.Pos(p, fn.Pos()), how, msg)
	}
	two264 := new(big.Int).Lsh(big.NewInt(1), 264)

	// ---- reduce
	if fn := ssau.Func(p, "internal/modm", "reduce"); fn != nil {
		it := absint.NewInterp(absint.Hooks{Modular: all, Polys: true})
		in, ips := input(it, "r", 256)
		it.Call(fn, []absint.AnyVal{in}, nil)
		if os.Getenv("EDCHECK_XDEBUG") != "" {
			for i, v := range it.St.Objs[in.Obj].Vals {
				fmt.Printf("reduce out[%d] mod=%v poly=%v sym=%v\n", i, v.PolyMod, v.Poly, v.Sym != nil)
			}
			for id, o := range it.St.Objs {
				if o.Kind == "arr" && id != in.Obj && len(o.Vals) == n {
					for i, v := range o.Vals {
						fmt.Printf("  obj %s[%d] mod=%v poly=%v range=%v\n", o.Name, i, v.PolyMod, v.Poly, v)
					}
				}
			}
		}
		msg := ""
		if it.Err != nil {
			msg = it.Err.Error()
		} else {
			d := absint.PolyAdd(weighted(outPolys(it, in), weights), weighted(ips, weights), -1)
			msg = residueMod(d, groupOrder)
		}
		check(msg == "", "modm.reduce(r) leaves r unchanged modulo L (r or r − L, selected by the final borrow), for r < 2^256", fn, fmt.Sprintf("%d limbs; borrow bits as boolean variables", n), "residue modulo L: "+msg)
	} else {
		r.Fail("X-exact-algebra", cfg, "modm.reduce exists", "", "exact:modm.reduce", "function not found (unrecognised shape)")
	}
	// ---- Add
	if fn := ssau.Func(p, "internal/modm", "Add"); fn != nil {
		it := absint.NewInterp(absint.Hooks{Modular: all, Polys: true})
		out, _ := input(it, "o", 0)
		x, xp := input(it, "x", 253)
		y, yp := input(it, "y", 253)
		it.Call(fn, []absint.AnyVal{out, x, y}, nil)
		msg := ""
		if it.Err != nil {
			msg = it.Err.Error()
		} else {
			d := absint.PolyAdd(absint.PolyAdd(weighted(outPolys(it, out), weights), weighted(xp, weights), -1), weighted(yp, weights), -1)
			msg = residueMod(d, groupOrder)
		}
		check(msg == "", "modm.Add(r, x, y): r ≡ x + y (mod L) for x, y < 2^253", fn, "carry chain and conditional subtraction as one polynomial identity", "residue modulo L: "+msg)
	}
	// ---- Mul: the operands handed to barrettReduce
	if fn := ssau.Func(p, "internal/modm", "Mul"); fn != nil {
		var q1p, r1p []*absint.Poly
		var r1top absint.Val
		var itRef *absint.Interp
		it := absint.NewInterp(absint.Hooks{Modular: all, Polys: true, Summary: func(it *absint.Interp, f *ssa.Function, args []absint.AnyVal, call ssa.Instruction) (absint.AnyVal, bool) {
			if f.Name() == "barrettReduce" && len(args) == 3 {
				if q, ok := args[1].(absint.PtrV); ok {
					q1p = outPolys(it, q)
				}
				if q, ok := args[2].(absint.PtrV); ok {
					r1p = outPolys(it, q)
					r1top = it.St.Objs[q.Obj].Vals[n-1]
				}
				itRef = it
				return nil, true
			}
			return nil, false
		}})
		out, _ := input(it, "o", 0)
		// operands are reduced scalars (< L < 2^253) at every call site; the 9x30 layout drops product bits from 2^510 up
		x, xp := input(it, "x", 253)
		y, yp := input(it, "y", 253)
		it.Call(fn, []absint.AnyVal{out, x, y}, nil)
		var bad []string
		if it.Err != nil {
			bad = append(bad, it.Err.Error())
		} else if q1p == nil || r1p == nil || itRef == nil {
			bad = append(bad, "barrettReduce is not called with the two halves of the product")
		} else {
			xy := absint.PolyMul(weighted(xp, weights), weighted(yp, weights))
			if m := residueMod(absint.PolyAdd(weighted(r1p, weights), xy, -1), two264); m != "" {
				bad = append(bad, "r1 is not x·y modulo 2^264: "+m)
			}
			// (r1 mod 2^248) + 2^248·q1 = x·y
			topBits := 248 - bpl*(n-1)
			low := append([]*absint.Poly{}, r1p[:n-1]...)
			low = append(low, itRef.LowBits(r1top, topBits))
			d := absint.PolyAdd(absint.PolyAdd(weighted(low, weights), absint.PolyScale(weighted(q1p, weights), new(big.Int).Lsh(big.NewInt(1), 248)), 1), xy, -1)
			if d == nil {
				bad = append(bad, "q1 / r1 have no exact value")
			} else if !d.IsZero() {
				bad = append(bad, "(r1 mod 2^248) + 2^248·q1 differs from x·y by "+d.String()+" where "+itRef.Describe(d))
			}
		}
		check(len(bad) == 0, "modm.Mul: the 512-bit product is split exactly into r1 = x·y mod 2^264 and q1 = x·y >> 248 for Barrett", fn, fmt.Sprintf("%d partial products with carry variables", n*n), strings.Join(bad, "; "))
	}
	// ---- barrettReduce tail
	if fn := ssau.Func(p, "internal/modm", "barrettReduce"); fn != nil {
		reduces := 0
		var bad []string
		var base int
		var rObj, q1Obj, r1Obj int
		var r1p []*absint.Poly
		it := absint.NewInterp(absint.Hooks{Modular: all, Polys: true, Summary: func(it *absint.Interp, f *ssa.Function, args []absint.AnyVal, call ssa.Instruction) (absint.AnyVal, bool) {
			if f.Name() != "reduce" {
				return nil, false
			}
			reduces++
			if reduces > 1 {
				return nil, true
			}
			if pv, ok := args[0].(absint.PtrV); !ok || pv.Obj != rObj {
				bad = append(bad, "reduce is applied to something other than the result")
				return nil, true
			}
			// scratch arrays allocated by the call
			var locals []int
			for id := base; id < len(it.St.Objs); id++ {
				o := it.St.Objs[id]
				if o.Kind == "arr" && len(o.Vals) == n && id != rObj && id != q1Obj && id != r1Obj {
					locals = append(locals, id)
				}
			}
			rp := outPolys(it, absint.PtrV{Obj: rObj, Idx: -1})
			found := false
			for _, a := range locals {
				for _, b := range locals {
					if a == b {
						continue
					}
					q3 := weighted(outPolys(it, absint.PtrV{Obj: a, Idx: -1}), weights)
					r2 := weighted(outPolys(it, absint.PtrV{Obj: b, Idx: -1}), weights)
					if q3 == nil || r2 == nil {
						continue
					}
					if residueMod(absint.PolyAdd(r2, absint.PolyScale(q3, groupOrder), -1), two264) != "" {
						continue
					}
					found = true
					d := absint.PolyAdd(absint.PolyAdd(weighted(rp, weights), weighted(r1p, weights), -1), r2, 1)
					if m := residueMod(d, two264); m != "" {
						bad = append(bad, "r is not r1 − r2 modulo 2^264 when the conditional subtractions start: "+m)
					}
				}
			}
			if !found {
				bad = append(bad, fmt.Sprintf("no pair of scratch arrays (of %d) satisfies r2 ≡ q3·L (mod 2^264)", len(locals)))
			}
			return nil, true
		}})
		out, _ := input(it, "o", 0)
		q1, _ := input(it, "q", 264)
		r1, ps := input(it, "r", 264)
		r1p = ps
		rObj, q1Obj, r1Obj = out.Obj, q1.Obj, r1.Obj
		base = len(it.St.Objs)
		it.Call(fn, []absint.AnyVal{out, q1, r1}, nil)
		if it.Err != nil {
			bad = append(bad, it.Err.Error())
		}
		if reduces != 2 {
			bad = append(bad, fmt.Sprintf("reduce is called %d times, want 2", reduces))
		}
		if len(bad) > 3 {
			bad = bad[:3]
		}
		check(len(bad) == 0, "modm.barrettReduce: r2 = q3·L mod 2^264, r = r1 − r2 mod 2^264, then exactly two conditional subtractions", fn, "scratch arrays identified by the identity they satisfy", strings.Join(bad, "; "))
	}
}

func polyOfVal(v absint.Val) *absint.Poly {
	if v.Poly != nil {
		return v.Poly
	}
	if v.Lo != nil && v.IsConst() && v.Lo.Sign() >= 0 {
		return absint.PolyConst(v.Lo)
	}
	return nil
}

// ruleExactWindow4 (X): the signed radix-16 recoding preserves the value: Σ r_i·16^i = s as integers, for every
// s < 2^256 (the bit-origin rule decides the unsigned digit extraction; this decides the pass that makes digits signed).
func ruleExactWindow4(r *rep.Report, p *load.Program) {
	cfg := p.Cfg.Name
	bpl, n, w := modmLayout(p)
	fn := ssau.Func(p, "internal/modm", "ContractWindow4")
	if n == 0 || fn == nil {
		return
	}
	it := absint.NewInterp(absint.Hooks{Modular: func(*ssa.Function) bool { return true }, Polys: true})
	in := &absint.Object{Name: "s", Kind: "arr", W: w}
	var sp []*absint.Poly
	for i := 0; i < n; i++ {
		bits := 256 - i*bpl
		if bits > bpl {
			bits = bpl
		}
		v := absint.Range(new(big.Int), new(big.Int).Sub(new(big.Int).Lsh(big.NewInt(1), uint(bits)), big.NewInt(1)), w, false)
		v.Sym = absint.FreshSym(fmt.Sprintf("s[%d]", i), w)
		v.Poly = absint.PolyVar(fmt.Sprintf("s%d", i))
		sp = append(sp, v.Poly)
		in.Vals = append(in.Vals, v)
	}
	it.St.Objs = append(it.St.Objs, in)
	sid := len(it.St.Objs) - 1
	out := &absint.Object{Name: "r", Kind: "arr", W: 8, Sg: true}
	for i := 0; i < 64; i++ {
		out.Vals = append(out.Vals, absint.ConstInt(0, 8, true))
	}
	it.St.Objs = append(it.St.Objs, out)
	oid := len(it.St.Objs) - 1
	it.Call(fn, []absint.AnyVal{absint.PtrV{Obj: oid, Idx: -1}, absint.PtrV{Obj: sid, Idx: -1}}, nil)
	msg := ""
	if it.Err != nil {
		msg = it.Err.Error()
	} else {
		sum := absint.PolyConst(new(big.Int))
		for i, v := range it.St.Objs[oid].Vals {
			pv := polyOfVal(v)
			if pv == nil || v.PolyMod {
				msg = fmt.Sprintf("digit %d has no exact value", i)
				break
			}
			sum = absint.PolyAdd(sum, absint.PolyScale(pv, new(big.Int).Lsh(big.NewInt(1), uint(4*i))), 1)
		}
		if msg == "" {
			weights := make([]int, n)
			for i := range weights {
				weights[i] = i * bpl
			}
			d := absint.PolyAdd(sum, weighted(sp, weights), -1)
			if !d.IsZero() {
				msg = "Σ r_i·16^i − s = " + d.String() + " where " + it.Describe(d)
			}
		}
	}
	r.Check(msg == "", "X-exact-algebra", cfg, "modm.ContractWindow4: the signed radix-16 digits represent the scalar, Σ r_i·16^i = s", ssau.Pos(p, fn.Pos()),
		"64 signed digits as polynomials over the limbs; carries between digits cancel", msg)
}
