package main

import (
	"fmt"

	"golang.org/x/tools/go/ssa"

	"verif/internal/engine/g"
	"verif/internal/load"
	"verif/internal/pt"
	"verif/internal/rep"
	"verif/internal/roles"
	"verif/internal/ssau"
)

// geModel is the call model for functions of the internal packages (no roles).
func geModel() *pt.Model {
	pure := map[string]bool{}
	for k, v := range pureFuncs {
		pure[k] = v
	}
	return &pt.Model{Pure: pure, InOut: inOutFuncs, Facts: map[int]int{}, HashAppend: map[string]bool{}}
}

func geFunc(r *rep.Report, p *load.Program, pkg, name string) *ssa.Function {
	fn := ssau.Func(p, pkg, name)
	if fn == nil {
		r.Fail("role", p.Cfg.Name, pkg+"."+name+" exists", "", "role:"+pkg+"."+name, "function not found (internal API used by name)")
	}
	return fn
}

var oneTerm = T("cat", T("byte", N(1)), pt.Zero)

func fld(x *pt.Term, f string) *pt.Term { return T("fld", x, L(f)) }

// ruleCofactor: S on CofactorMultiply (exactly three doublings), IsNeutralVartime (canonical encodings) and CofactorEqual.
func ruleCofactor(r *rep.Report, p *load.Program) {
	cfg := p.Cfg.Name
	any := []g.World{{Desc: "any"}}
	if fn := geFunc(r, p, "internal/ge25519", "CofactorMultiply"); fn != nil {
		paths := pathsOf(r, p, fn, geModel(), "CofactorMultiply")
		dbl := func(x *pt.Term) *pt.Term { return T("ge25519.p1p1ToFull", T("ge25519.doubleP1p1", x)) }
		want := dbl(dbl(dbl(L("P1")))).String()
		// Double(x) is p1p1ToFull(doubleP1p1(x)) (checked below): normalise it away before comparing
		for _, pa := range paths {
			if f, ok := pa.Finals["P0"]; ok {
				pa.Finals["P0"] = expandDouble(f)
			}
		}
		runG(r, p, "S-cofactor", "CofactorMultiply", fn, paths, any, func(w *g.World) g.Terminal {
			return g.Terminal{Kind: "return", Finals: map[string]string{"P0": want}}
		})
		if dfn := geFunc(r, p, "internal/ge25519", "Double"); dfn != nil {
			dp := pathsOf(r, p, dfn, geModel(), "Double")
			runG(r, p, "S-cofactor", "Double", dfn, dp, any, func(w *g.World) g.Terminal {
				return g.Terminal{Kind: "return", Finals: map[string]string{"P0": dbl(L("P1")).String()}}
			})
		}
	}
	if fn := geFunc(r, p, "internal/ge25519", "IsNeutralVartime"); fn != nil {
		paths := pathsOf(r, p, fn, geModel(), "IsNeutralVartime")
		c := func(f string) *pt.Term { return T("curve25519.Contract", fld(L("P0"), f)) }
		// whole-array equality may be spelled bytes.Equal(a,b) or subtle.ConstantTimeCompare(a,b) == 1 (public data)
		eqForms := func(a, b *pt.Term) []string {
			return []string{T("byteseq", a, b).String(), T("eq", N(1), T("cteq", a, b)).String(), T("byteseq", b, a).String(), T("eq", N(1), T("cteq", b, a)).String(),
				T("eq", a, b).String(), T("eq", b, a).String()} // the last two: Go's == on [32]byte values
		}
		xzs, yzs := eqForms(pt.Zero, c("x")), eqForms(c("y"), c("z"))
		// the zero value of an array type is rendered as the nil constant
		xzs = append(xzs, T("eq", c("x"), L("nil")).String(), T("eq", L("nil"), c("x")).String())
		isIn := func(s string, set []string) bool {
			for _, x := range set {
				if x == s {
					return true
				}
			}
			return false
		}
		ok := paths != nil
		if ok {
			// evaluate every path: its atoms must be among the two equalities, its result a constant or one of them
			for vx := 0; vx < 2 && ok; vx++ {
				for vy := 0; vy < 2 && ok; vy++ {
					want := vx == 1 && vy == 1
					matched := 0
					for _, pa := range paths {
						consistent := true
						for _, a := range pa.Atoms {
							switch {
							case isIn(a.Key, xzs):
								if a.Val != (vx == 1) {
									consistent = false
								}
							case isIn(a.Key, yzs):
								if a.Val != (vy == 1) {
									consistent = false
								}
							default:
								ok = false
							}
						}
						if !consistent {
							continue
						}
						matched++
						got, decided := false, false
						if pa.Kind == "return" && len(pa.Results) == 1 {
							rs := pa.Results[0].String()
							switch {
							case rs == "#false":
								got, decided = false, true
							case rs == "#true":
								got, decided = true, true
							case isIn(rs, xzs):
								got, decided = vx == 1, true
							case isIn(rs, yzs):
								got, decided = vy == 1, true
							}
						}
						if !decided || got != want {
							ok = false
						}
					}
					if matched != 1 {
						ok = false
					}
				}
			}
		}
		r.Check(ok, "S-neutral", cfg, "IsNeutralVartime(q) = (Contract(q.x) == 0^32) && (Contract(q.y) == Contract(q.z))", ssau.Pos(p, fn.Pos()),
			"truth table over the two byte-equalities on canonical encodings", "IsNeutralVartime does not compute X==0 && Y==Z on the contracted (fully reduced) coordinates (unrecognised shape or wrong predicate)")
	}
	if fn := geFunc(r, p, "internal/ge25519", "CofactorEqual"); fn != nil {
		paths := pathsOf(r, p, fn, geModel(), "CofactorEqual")
		want := T("ge25519.IsNeutralVartime", T("ge25519.CofactorMultiply", T("ge25519.p1p1ToFull", T("ge25519.geSub", L("P0"), T("ge25519.fullToPniels", L("P1")))))).String()
		runG(r, p, "S-cofactor", "CofactorEqual", fn, paths, any, func(w *g.World) g.Terminal {
			return g.Terminal{Kind: "return", Results: []string{want}}
		})
	}
}

// ruleDecode: G/S on UnpackNegativeVartime (single rejection, sign handling) and UnpackVartime (bit flip on a copy).
func ruleDecode(r *rep.Report, p *load.Program) {
	cfg := p.Cfg.Name
	fn := geFunc(r, p, "internal/ge25519", "UnpackNegativeVartime")
	if fn != nil {
		paths := pathsOf(r, p, fn, geModel(), "UnpackNegativeVartime")
		mul := func(a, b *pt.Term) *pt.Term { return T("curve25519.Mul", a, b) }
		sq := func(a *pt.Term) *pt.Term { return T("curve25519.Square", a) }
		y := T("curve25519.Expand", L("P1"))
		one := T("curve25519.Copy", oneTerm)
		num0 := sq(y)
		den := T("curve25519.Add", mul(num0, L("G:ge25519.ecd")), one)
		num := T("curve25519.SubReduce", num0, one)
		d3 := mul(sq(den), den)
		x := mul(mul(sq(d3), den), num)
		x = T("curve25519.PowTwo252m3", x)
		x = mul(mul(x, d3), num)
		t := mul(sq(x), den)
		c1 := T("cteq", pt.Zero, T("curve25519.Contract", T("curve25519.SubReduce", t, num)))
		c2 := T("cteq", pt.Zero, T("curve25519.Contract", T("curve25519.AddReduce", t, num)))
		xi := mul(x, L("G:ge25519.sqrtNeg1"))
		parity := T("shr", T("at", L("P1"), N(31)), N(7))
		par := func(xx *pt.Term) string {
			return T("eq", T("and", N(1), T("at", T("curve25519.Contract", xx), N(0))), parity).String()
		}
		pa, pb := par(x), par(xi)
		fin := func(xx *pt.Term, neg bool) string {
			if neg {
				xx = T("curve25519.Neg", T("curve25519.Copy", xx))
			}
			return T("struct", xx, y, one, mul(xx, y)).String()
		}
		worlds := g.Product(map[string][]int{c1.String(): {0, 1}, c2.String(): {0, 1}}, []string{pa, pb}, nil)
		runG(r, p, "S-decode", "UnpackNegativeVartime", fn, paths, worlds, func(w *g.World) g.Terminal {
			root1, root2 := w.Ints[c1.String()] == 1, w.Ints[c2.String()] == 1
			switch {
			case root1:
				return g.Terminal{Kind: "return", Results: []string{"#true"}, Finals: map[string]string{"P0": fin(x, w.Bools[pa])}}
			case root2:
				return g.Terminal{Kind: "return", Results: []string{"#true"}, Finals: map[string]string{"P0": fin(xi, w.Bools[pb])}}
			}
			return g.Terminal{Kind: "return", Results: []string{"#false"}}
		})
	}
	fn = geFunc(r, p, "internal/ge25519", "UnpackVartime")
	if fn != nil {
		m := geModel()
		m.Facts = map[int]int{1: 32} // every caller passes exactly 32 bytes (engine P checks the call sites)
		paths := pathsOf(r, p, fn, m, "UnpackVartime")
		ok := paths != nil && len(paths) == 1 && len(paths[0].Results) == 1
		if ok {
			res := paths[0].Results[0]
			// ok:UnpackNegativeVartime(cat(P1[0:31], byte(f(P1[31])))) with f(v) = v ^ 0x80
			ok = res.Op == "ok:ge25519.UnpackNegativeVartime" && len(res.Args) == 1
			if ok {
				a := res.Args[0]
				ok = a.Op == "cat" && len(a.Args) == 2 && a.Args[0].String() == sub(L("P1"), 0, 31).String() && a.Args[1].Op == "byte" &&
					pt.ByteFunc1(a.Args[1].Args[0], T("at", L("P1"), N(31)).String(), func(v int) int { return v ^ 0x80 })
				if ok {
					f, has := paths[0].Finals["P0"]
					ok = has && f.String() == T("ge25519.UnpackNegativeVartime", a).String()
					_, wroteInput := paths[0].Finals["P1"]
					ok = ok && !wroteInput
				}
			}
		}
		r.Check(ok, "S-decode", cfg, "UnpackVartime = UnpackNegativeVartime on a copy with bit 255 flipped; the input is not written", ssau.Pos(p, fn.Pos()),
			"result and out-parameter are UnpackNegativeVartime(p[0:31] || p[31]^0x80); no write to p", "UnpackVartime does not have the documented shape (flip of bit 255 on a private copy)")
	}
}

// ruleEncode: S on Pack: Contract(y/z) with the parity of Contract(x/z) folded into bit 255.
func ruleEncode(r *rep.Report, p *load.Program) {
	cfg := p.Cfg.Name
	fn := geFunc(r, p, "internal/ge25519", "Pack")
	if fn == nil {
		return
	}
	paths := pathsOf(r, p, fn, geModel(), "Pack")
	ok := paths != nil && len(paths) == 1
	why := "unrecognised shape"
	if ok {
		f, has := paths[0].Finals["P0"]
		zi := T("curve25519.Recip", fld(L("P1"), "z"))
		cy := T("curve25519.Contract", T("curve25519.Mul", fld(L("P1"), "y"), zi))
		cx := T("curve25519.Contract", T("curve25519.Mul", fld(L("P1"), "x"), zi))
		ok = has && f.Op == "cat" && len(f.Args) == 3 &&
			f.Args[0].String() == sub(cy, 0, 31).String() &&
			f.Args[1].Op == "byte" &&
			pt.ByteFunc2(f.Args[1].Args[0], T("at", cy, N(31)).String(), T("at", cx, N(0)).String(), func(a, b int) int { return a ^ ((b & 1) << 7) }) &&
			f.Args[2].String() == T("sub", L("P0"), N(32), L("")).String()
		if has {
			why = "final content of the output is " + f.String()
		}
		_, wrote := paths[0].Finals["P1"]
		ok = ok && !wrote
	}
	r.Check(ok, "S-encode", cfg, "Pack(r,p): r[0:32] = Contract(y/z) with bit 255 ^= parity of Contract(x/z)[0]", ssau.Pos(p, fn.Pos()),
		"byte 31 is a 256x256 truth table of a ^ ((b&1)<<7) over the contracted (canonical) y and x", "Pack does not have the documented shape: "+why)
}

// ---- x25519 -------------------------------------------------------------------------------

func xModel() *pt.Model { return geModel() }

func ruleX25519(r *rep.Report, p *load.Program) {
	cfg := p.Cfg.Name
	any := []g.World{{Desc: "any"}}
	if fn := geFunc(r, p, "extra/x25519", "x25519"); fn != nil {
		paths := pathsOf(r, p, fn, xModel(), "x25519")
		isBase := T("eq", T("addr", L("P2"), N(0)), T("addr", T("deref", L("G:x25519.Basepoint")), N(0))).String()
		lad := T("extra/x25519.ScalarMult", L("P1"), L("P2"))
		low := T("cteq", pt.Zero, lad).String()
		worlds := g.Product(map[string][]int{"len(P1)": {0, 1, 31, 32, 33, 64}, "len(P2)": {0, 1, 31, 32, 33, 64}, low: {0, 1}}, []string{isBase}, nil)
		runG(r, p, "G-x25519", "x25519", fn, paths, worlds, func(w *g.World) g.Terminal {
			switch {
			case w.Ints["len(P1)"] != 32, w.Ints["len(P2)"] != 32:
				return g.Terminal{Kind: "return", Results: []string{"nil", "~error("}, Finals: map[string]string{"P0": ""}}
			case w.Bools[isBase]:
				sb := T("extra/x25519.ScalarBaseMult", L("P1")).String()
				return g.Terminal{Kind: "return", Results: []string{sb, "nil"}}
			case w.Ints[low] == 1:
				return g.Terminal{Kind: "return", Results: []string{"nil", "~error("}}
			}
			return g.Terminal{Kind: "return", Results: []string{lad.String(), "nil"}}
		})
	}
	if fn := geFunc(r, p, "extra/x25519", "X25519"); fn != nil {
		paths := pathsOf(r, p, fn, xModel(), "X25519")
		c := T("ok:extra/x25519.x25519", L("P0"), L("P1"))
		runG(r, p, "G-x25519", "X25519", fn, paths, any, func(w *g.World) g.Terminal {
			return g.Terminal{Kind: "return", Results: []string{T("res", c, N(0)).String(), T("res", c, N(1)).String()}}
		})
	}
	if fn := geFunc(r, p, "extra/x25519", "ScalarMult"); fn != nil {
		paths := pathsOf(r, p, fn, xModel(), "ScalarMult")
		runG(r, p, "S-x25519", "ScalarMult", fn, paths, any, func(w *g.World) g.Terminal {
			return g.Terminal{Kind: "return", Finals: map[string]string{"P0": T("x/crypto.ScalarMult", L("P1"), L("P2")).String(), "P1": "", "P2": ""}}
		})
	}
	if fn := geFunc(r, p, "extra/x25519", "ScalarBaseMult"); fn != nil {
		paths := pathsOf(r, p, fn, xModel(), "ScalarBaseMult")
		pnt := T("ge25519.ScalarmultBaseNiels", L("G:ge25519.NielsBaseMultiples"), T("modm.ExpandRaw", T("clamp", sub(L("P1"), 0, 32))))
		y, z := fld(pnt, "y"), fld(pnt, "z")
		want := T("curve25519.Contract", T("curve25519.Mul", T("curve25519.Add", y, z), T("curve25519.Recip", T("curve25519.Sub", z, y)))).String()
		runG(r, p, "S-x25519", "ScalarBaseMult", fn, paths, any, func(w *g.World) g.Terminal {
			return g.Terminal{Kind: "return", Finals: map[string]string{"P0": want, "P1": ""}}
		})
	}
	_ = cfg
}

func ruleConversions(r *rep.Report, p *load.Program) {
	any := []g.World{{Desc: "any"}}
	if fn := geFunc(r, p, "extra/x25519", "EdPrivateKeyToX25519"); fn != nil {
		m := xModel()
		paths := pathsOf(r, p, fn, m, "EdPrivateKeyToX25519")
		want := T("clamp", sub(T("SHA512", sub(L("P0"), 0, 32)), 0, 32)).String()
		runG(r, p, "S-convert", "EdPrivateKeyToX25519", fn, paths, any, func(w *g.World) g.Terminal {
			return g.Terminal{Kind: "return", Results: []string{want}, Finals: map[string]string{"P0": ""}}
		})
	}
	if fn := geFunc(r, p, "extra/x25519", "edwardsToMontgomeryX"); fn != nil {
		paths := pathsOf(r, p, fn, xModel(), "edwardsToMontgomeryX")
		want := T("curve25519.Mul", T("curve25519.Add", L("P1"), oneTerm), T("curve25519.Recip", T("curve25519.Sub", oneTerm, L("P1")))).String()
		runG(r, p, "S-convert", "edwardsToMontgomeryX", fn, paths, any, func(w *g.World) g.Terminal {
			return g.Terminal{Kind: "return", Finals: map[string]string{"P0": want, "P1": ""}}
		})
	}
	if fn := geFunc(r, p, "extra/x25519", "EdPublicKeyToX25519"); fn != nil {
		paths := pathsOf(r, p, fn, xModel(), "EdPublicKeyToX25519")
		dec := T("ok:ge25519.UnpackVartime", L("P0")).String()
		want := T("curve25519.Contract", T("extra/x25519.edwardsToMontgomeryX", fld(T("ge25519.UnpackVartime", L("P0")), "y"))).String()
		runG(r, p, "S-convert", "EdPublicKeyToX25519", fn, paths, g.Product(nil, []string{dec}, nil), func(w *g.World) g.Terminal {
			if !w.Bools[dec] {
				return g.Terminal{Kind: "return", Results: []string{"nil", "#false"}, Finals: map[string]string{"P0": ""}}
			}
			return g.Terminal{Kind: "return", Results: []string{want, "#true"}, Finals: map[string]string{"P0": ""}}
		})
	}
}

var _ = fmt.Sprintf
var _ *roles.Roles

// expandDouble rewrites ge25519.Double(x) into ge25519.p1p1ToFull(ge25519.doubleP1p1(x)).
func expandDouble(t *pt.Term) *pt.Term {
	if t == nil || len(t.Args) == 0 {
		return t
	}
	args := make([]*pt.Term, len(t.Args))
	for i, a := range t.Args {
		args[i] = expandDouble(a)
	}
	if t.Op == "ge25519.Double" && len(args) == 1 {
		return T("ge25519.p1p1ToFull", T("ge25519.doubleP1p1", args[0]))
	}
	return T(t.Op, args...)
}
