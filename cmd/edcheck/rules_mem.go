package main

import (
	"fmt"
	"go/token"
	"go/types"
	"sort"
	"strings"

	"golang.org/x/tools/go/ssa"

	"verif/internal/lit"
	"verif/internal/load"
	"verif/internal/mem"
	"verif/internal/rep"
	"verif/internal/ssau"
)

// exportedAPI lists the exported functions and methods of the two public packages.
func exportedAPI(p *load.Program) []*ssa.Function {
	var out []*ssa.Function
	for _, fn := range ssau.AllFuncs(p) {
		if fn.Parent() != nil {
			continue
		}
		s := ssau.PkgSuffix(fn)
		if s != "" && s != "extra/x25519" {
			continue
		}
		if !token.IsExported(fn.Name()) {
			continue
		}
		if fn.Signature.Recv() != nil {
			t := fn.Signature.Recv().Type()
			if pt, ok := t.(*types.Pointer); ok {
				t = pt.Elem()
			}
			if n, ok := t.(*types.Named); ok && !n.Obj().Exported() {
				continue
			}
		}
		out = append(out, fn)
	}
	return out
}

// allowedParamWrites: the declared out-parameters of the public API.
var allowedParamWrites = map[string][]int{
	"extra/x25519.ScalarMult":     {0},
	"extra/x25519.ScalarBaseMult": {0},
}

func intIn(xs []int, x int) bool {
	for _, y := range xs {
		if y == x {
			return true
		}
	}
	return false
}

// testSwitchGuard reports whether site is dominated by the true branch of a test of a package-level bool that
// has no initialiser; returns that global.
func testSwitchGuard(site ssa.Instruction) *ssa.Global {
	blk := site.Block()
	for b := blk.Idom(); b != nil; b = b.Idom() {
		ifi, ok := b.Instrs[len(b.Instrs)-1].(*ssa.If)
		if !ok {
			continue
		}
		ld, ok := ifi.Cond.(*ssa.UnOp)
		if !ok || ld.Op != token.MUL {
			continue
		}
		g, ok := ld.X.(*ssa.Global)
		if !ok || g.Type().(*types.Pointer).Elem().String() != "bool" {
			continue
		}
		t := b.Succs[0]
		if len(t.Preds) == 1 && t.Dominates(blk) {
			return g
		}
	}
	return nil
}

// ruleGlobalWrites (M1): no function writes memory reachable from a package-level variable outside init / the dead test switch.
func ruleGlobalWrites(r *rep.Report, p *load.Program, an *mem.Analysis) {
	cfg := p.Cfg.Name
	nfn, nsites := 0, 0
	switches := map[*ssa.Global]bool{}
	type gw struct {
		fn   *ssa.Function
		w    mem.WriteSite
		sw   *ssa.Global
		init bool
	}
	var all []gw
	for _, fn := range ssau.AllFuncs(p) {
		if fn.Parent() != nil || len(fn.Blocks) == 0 {
			continue
		}
		nfn++
		in := an.Of(fn)
		seenG := map[string]bool{}
		for _, w := range in.Writes {
			if w.Transitive {
				continue // judged at the origin site
			}
			if w.Root.Kind == mem.Global {
				k := w.Root.String() + "|" + w.Via
				if mem.IsInit(fn) && seenG[k] {
					continue
				}
				seenG[k] = true
			}
			switch w.Root.Kind {
			case mem.Global:
				nsites++
				x := gw{fn: fn, w: w, init: mem.IsInit(fn)}
				if !x.init {
					x.sw = testSwitchGuard(w.Instr)
					if x.sw != nil {
						switches[x.sw] = true
					}
				}
				all = append(all, x)
			case mem.Unknown:
				r.Fail("M1-global-writes", cfg, "every written location has known provenance", ssau.InstrPos(p, w.Instr), "unknown-write:"+ssau.QName(fn), "write through a pointer of unknown provenance in "+ssau.QName(fn)+" ("+w.Via+")")
			}
		}
	}
	written := map[*ssa.Global]bool{}
	for _, x := range all {
		written[x.w.Root.Ref.(*ssa.Global)] = true
	}
	for _, x := range all {
		g := x.w.Root.Ref.(*ssa.Global)
		subj := fmt.Sprintf("write to %s in %s", x.w.Root, ssau.QName(x.fn))
		switch {
		case x.init:
			r.OK("M1-global-writes", cfg, subj, "package initialiser")
		case x.sw != nil && !written[x.sw] && !hasInitialiser(p, x.sw):
			r.OK("M1-global-writes", cfg, subj, "dominated by a true test of "+x.sw.Name()+", a package-level bool with no initialiser and no production store (test switch)")
			r.Assume("test switch " + x.sw.Pkg.Pkg.Name() + "." + x.sw.Name() + " is false in production (only tests set it)")
		default:
			via := x.w.Via
			if via != "" {
				via = " via " + via
			}
			r.Fail("M1-global-writes", cfg, "no function reachable at run time writes package-level state", ssau.InstrPos(p, x.w.Instr), "global-write:"+g.Pkg.Pkg.Name()+"."+g.Name()+":"+ssau.QName(x.fn),
				fmt.Sprintf("%s writes package-level variable %s%s: shared mutable state (data race / history dependence)", ssau.QName(x.fn), x.w.Root, via))
		}
	}
	r.Check(nfn > 50, "M1-global-writes", cfg, "all function families analysed for writes to package-level state", "", fmt.Sprintf("%d families, %d global write sites classified", nfn, nsites), fmt.Sprintf("only %d functions analysed", nfn))
	r.Count("functions-analysed", nfn)
}

func hasInitialiser(p *load.Program, g *ssa.Global) bool {
	for _, pkg := range p.Pkgs {
		if pkg.Types == g.Pkg.Pkg {
			e, vs := lit.FindVar(pkg, g.Name())
			return vs != nil && e != nil
		}
	}
	return true
}

// ruleNoParamWrites (M2): exported functions never write caller-supplied memory except declared out-parameters.
func ruleNoParamWrites(r *rep.Report, p *load.Program, an *mem.Analysis) {
	cfg := p.Cfg.Name
	n := 0
	for _, fn := range exportedAPI(p) {
		in := an.Of(fn)
		q := ssau.QName(fn)
		bad := false
		for _, w := range in.Writes {
			if w.Root.Kind != mem.Param {
				continue
			}
			if intIn(allowedParamWrites[q], w.Root.Idx) {
				continue
			}
			bad = true
			via := w.Via
			if via != "" {
				via = " via " + via
			}
			name := fmt.Sprintf("parameter %d", w.Root.Idx)
			if w.Root.Idx < len(fn.Params) {
				name = fn.Params[w.Root.Idx].Name()
			}
			r.Fail("M2-no-input-writes", cfg, q+" never writes caller-supplied memory", ssau.InstrPos(p, w.Instr), "param-write:"+q+":"+name, fmt.Sprintf("%s may write memory reachable from its argument %q%s", q, name, via))
		}
		if !bad {
			n++
			r.OK("M2-no-input-writes", cfg, q+" never writes caller-supplied memory", fmt.Sprintf("write set restricted to locals%v", allowedParamWrites[q]))
		}
	}
	r.Check(n >= 10, "M2-no-input-writes", cfg, "exported API enumerated", "", fmt.Sprintf("%d exported functions clean", n), "fewer than 10 exported functions found")
}

// ruleOutParamTable cross-checks the out-parameter discipline of the internal packages (DESIGN App. C) that the term engine relies on.
func ruleOutParamTable(r *rep.Report, p *load.Program, an *mem.Analysis) {
	cfg := p.Cfg.Name
	n := 0
	for _, fn := range ssau.AllFuncs(p) {
		if fn.Parent() != nil || len(fn.Blocks) == 0 {
			continue
		}
		s := ssau.PkgSuffix(fn)
		if !strings.HasPrefix(s, "internal/") || mem.IsInit(fn) {
			continue
		}
		q := ssau.QName(fn)
		allowed := []int{0}
		if fn.Name() == "SwapConditional" {
			allowed = []int{0, 1}
		}
		if pureFuncs[q] {
			allowed = nil
		}
		ok := true
		for _, w := range an.Of(fn).Writes {
			if w.Root.Kind == mem.Param && !intIn(allowed, w.Root.Idx) {
				// an unexported helper may have further out-parameters as long as every caller hands it memory of its own
				if !token.IsExported(fn.Name()) && fn.Signature.Recv() == nil && extraOutParamLocal(p, an, fn, w.Root.Idx) {
					continue
				}
				ok = false
				r.Fail("M2-out-params", cfg, q+" writes only its out-parameter", ssau.InstrPos(p, w.Instr), "outparam:"+q+fmt.Sprint(w.Root.Idx), fmt.Sprintf("%s writes through parameter %d (allowed: %v)", q, w.Root.Idx, allowed))
			}
		}
		if ok {
			n++
		}
	}
	r.Check(n > 40, "M2-out-params", cfg, "internal functions write only their first parameter (SwapConditional: both; predicates: none)", "", fmt.Sprintf("%d internal functions conform", n), "too few internal functions analysed")
}

// freshResults: exported functions whose returned slices must not alias anything that outlives the call.
var freshResults = map[string][]int{
	"PrivateKey.Public": {0}, "PrivateKey.Seed": {0}, "GenerateKey": {0, 1}, "NewKeyFromSeed": {0}, "Sign": {0}, "PrivateKey.Sign": {0},
	"extra/x25519.X25519": {0}, "extra/x25519.EdPrivateKeyToX25519": {0}, "extra/x25519.EdPublicKeyToX25519": {0},
}

// ruleFreshness (M3).
func ruleFreshness(r *rep.Report, p *load.Program, an *mem.Analysis, only map[string]bool) {
	cfg := p.Cfg.Name
	for _, fn := range exportedAPI(p) {
		q := ssau.QName(fn)
		idxs, ok := freshResults[q]
		if !ok || (only != nil && !only[q]) {
			continue
		}
		in := an.Of(fn)
		for _, i := range idxs {
			if i >= len(in.Ret) {
				r.Fail("M3-fresh-results", cfg, q+" result is modelled", ssau.Pos(p, fn.Pos()), "fresh:"+q, "result not modelled")
				continue
			}
			var bad []string
			for _, rt := range in.Ret[i].Sorted() {
				if rt.Kind != mem.Alloc && rt.Kind != mem.Fresh {
					bad = append(bad, rt.String())
				}
			}
			r.Check(len(bad) == 0, "M3-fresh-results", cfg, fmt.Sprintf("%s result %d is freshly allocated (aliases no argument or package-level memory)", q, i), ssau.Pos(p, fn.Pos()),
				"roots: allocations made during the call", fmt.Sprintf("%s result %d may alias %v", q, i, bad))
		}
	}
}

// ruleExternals: every callee outside the module is in the externals table; entropy/time only where documented; no concurrency constructs.
func ruleExternals(r *rep.Report, p *load.Program, an *mem.Analysis, roots []*ssa.Function, cone string, entropyAllowed map[string]bool) {
	cfg := p.Cfg.Name
	mod, _, _ := ssau.Reachable(roots...)
	seen := map[string]string{}
	nconc := 0
	for _, fn := range mod {
		if fn.Parent() != nil || len(fn.Blocks) == 0 {
			continue
		}
		in := an.Of(fn)
		for k, sites := range in.Externs {
			if _, ok := seen[k]; !ok {
				seen[k] = ssau.InstrPos(p, sites[0]) + " in " + ssau.QName(fn)
			}
			m, ok := mem.Externs[k]
			if ok && m.Entropy && !entropyAllowed[ssau.QName(fn)] {
				r.Fail("M4-externals", cfg, cone+": entropy is read only where documented", ssau.InstrPos(p, sites[0]), "entropy:"+ssau.QName(fn), ssau.QName(fn)+" reads an entropy source ("+k+")")
			}
		}
		// a reader is mutated by Read: it must be the caller's own (a parameter) or crypto/rand.Reader (trusted concurrency-safe)
		for k, sites := range in.Externs {
			if m, ok := mem.Externs[k]; !ok || !m.Entropy {
				continue
			}
			for _, site := range sites {
				call, ok := site.(ssa.CallInstruction)
				if !ok || len(call.Common().Args) == 0 {
					continue
				}
				var bad []string
				for _, rt := range in.Pts[call.Common().Args[0]].Sorted() {
					switch rt.Kind {
					case mem.Param:
					case mem.Global:
						if g, ok := rt.Ref.(*ssa.Global); ok && g.Pkg != nil && g.Pkg.Pkg.Path() == "crypto/rand" && g.Name() == "Reader" {
							continue
						}
						bad = append(bad, rt.String())
					default:
						bad = append(bad, rt.String())
					}
				}
				r.Check(len(bad) == 0, "M1-stateful-reader", cfg, cone+": an entropy reader is the caller's own or crypto/rand.Reader", ssau.InstrPos(p, site),
					k+" reads from a parameter or crypto/rand.Reader", fmt.Sprintf("%s in %s reads from %v: a reader is mutated by every Read, so a package-level or otherwise shared reader is shared mutable state", k, ssau.QName(fn), bad))
			}
		}
		for _, u := range in.Unres {
			r.Fail("M4-externals", cfg, cone+": every call resolves", ssau.InstrPos(p, u), "unresolved:"+ssau.QName(fn), "unresolved dynamic call in "+ssau.QName(fn))
		}
		for _, c := range in.Conc {
			nconc++
			r.Fail("M5-no-concurrency", cfg, cone+": no goroutine / channel / defer constructs", ssau.InstrPos(p, c), "conc:"+ssau.QName(fn), fmt.Sprintf("%s uses %T", ssau.QName(fn), c))
		}
	}
	var keys []string
	for k := range seen {
		keys = append(keys, k)
	}
	sort.Strings(keys)
	bad := 0
	for _, k := range keys {
		if m, ok := mem.Externs[k]; !ok || !m.Known {
			bad++
			r.Fail("M4-externals", cfg, cone+": every external callee is in the externals table", seen[k], "extern:"+k, "unmodelled external callee "+k+" (first use at "+seen[k]+"): effects, timing and entropy behaviour unknown")
		}
	}
	if bad == 0 {
		r.OK("M4-externals", cfg, cone+": every external callee is in the externals table", fmt.Sprintf("%d distinct externals across %d functions: %s", len(keys), len(mod), strings.Join(keys, ", ")))
	}
	if nconc == 0 {
		r.OK("M5-no-concurrency", cfg, cone+": no goroutine / channel / defer constructs", fmt.Sprintf("%d reachable functions", len(mod)))
	}
	// global reads of mutable state: any global read in the cone must never be written (M1 covers writes); list them
}

// extraOutParamLocal: every call of the unexported function fn passes, as argument idx, memory allocated by the caller
// itself (a local), and fn has at least one caller.
func extraOutParamLocal(p *load.Program, an *mem.Analysis, fn *ssa.Function, idx int) bool {
	calls := 0
	for _, caller := range ssau.AllFuncs(p) {
		if len(caller.Blocks) == 0 {
			continue
		}
		for _, b := range caller.Blocks {
			for _, in := range b.Instrs {
				c, ok := in.(ssa.CallInstruction)
				if !ok || c.Common().StaticCallee() != fn || idx >= len(c.Common().Args) {
					continue
				}
				calls++
				roots := an.Of(caller).Pts[c.Common().Args[idx]]
				if len(roots) == 0 {
					return false
				}
				for rt := range roots {
					// the caller's own locals, or the caller's own (first) out-parameter handed on
					if rt.Kind == mem.Param && rt.Idx == 0 && strings.HasPrefix(ssau.PkgSuffix(caller), "internal/") {
						continue
					}
					if rt.Kind != mem.Alloc && rt.Kind != mem.Fresh {
						return false
					}
				}
			}
		}
	}
	return calls > 0
}
