package main

import (
	"fmt"
	"math/big"
	"strings"

	"golang.org/x/tools/go/ssa"

	"verif/internal/absint"
	"verif/internal/load"
	"verif/internal/rep"
	"verif/internal/ssau"
)

// bitCase builds a limb array whose bits are known zero, known one or unknown as told by f(globalBitPosition).
// Bits above the nominal limb width are zero (reduced representation).
func bitCase(it *absint.Interp, n, w, bpl int, f func(pos int) absint.Bit) absint.PtrV {
	o := &absint.Object{Name: "a", Kind: "arr", W: w}
	for i := 0; i < n; i++ {
		v := absint.Val{W: w, Lo: new(big.Int), Hi: new(big.Int)}
		v.Bits = make([]absint.Bit, w)
		for b := 0; b < w; b++ {
			bit := absint.BZero
			if b < bpl && i*bpl+b < 256 {
				bit = f(i*bpl + b)
			}
			v.Bits[b] = bit
			switch bit {
			case absint.BOne:
				v.Lo.SetBit(v.Lo, b, 1)
				v.Hi.SetBit(v.Hi, b, 1)
			case absint.BZero:
			default:
				v.Hi.SetBit(v.Hi, b, 1)
			}
		}
		if v.Lo.Cmp(v.Hi) != 0 {
			v.Sym = absint.FreshSym(fmt.Sprintf("a[%d]", i), w)
		} else {
			v = absint.Const(v.Lo, w, false)
		}
		o.Vals = append(o.Vals, v)
	}
	it.St.Objs = append(it.St.Objs, o)
	return absint.PtrV{Obj: len(it.St.Objs) - 1, Idx: -1}
}

// ruleVartimePredicates (V): the three scalar predicates that steer the Bos-Coster loop are decided on a finite family
// of abstract inputs that covers every concrete input: each case fixes some bits and leaves all others unknown, and the
// abstract result must be the same constant on the whole case.
func ruleVartimePredicates(r *rep.Report, p *load.Program) {
	cfg := p.Cfg.Name
	bpl, n, w := modmLayout(p)
	if n == 0 {
		return
	}
	run := func(fn *ssa.Function, f func(int) absint.Bit) (string, error) {
		it := absint.NewInterp(absint.Hooks{Modular: func(*ssa.Function) bool { return true }, MaxForks: 64})
		a := bitCase(it, n, w, bpl, f)
		res := it.Call(fn, []absint.AnyVal{a}, nil)
		if it.Err != nil {
			return "", it.Err
		}
		v, ok := res.(absint.Val)
		if !ok || !v.IsConst() {
			return "undecided", nil
		}
		if v.Int64() != 0 {
			return "true", nil
		}
		return "false", nil
	}
	top := func(int) absint.Bit { return absint.BTop }
	_ = top
	type pcase struct {
		name string
		f    func(int) absint.Bit
		want string
	}
	preds := []struct {
		name  string
		what  string
		cases func() []pcase
	}{
		{"IsAtMost128bitsVartime", "true exactly when every bit at or above 2^128 is zero", func() []pcase {
			cs := []pcase{{"bits 128.. all zero, bits 0..127 arbitrary", func(pos int) absint.Bit {
				if pos >= 128 {
					return absint.BZero
				}
				return absint.BTop
			}, "true"}}
			for k := 128; k < 256; k++ {
				k := k
				cs = append(cs, pcase{fmt.Sprintf("bit %d set, all other bits arbitrary", k), func(pos int) absint.Bit {
					if pos == k {
						return absint.BOne
					}
					return absint.BTop
				}, "false"})
			}
			return cs
		}},
		{"IsZeroVartime", "true exactly when every bit is zero", func() []pcase {
			cs := []pcase{{"all bits zero", func(int) absint.Bit { return absint.BZero }, "true"}}
			for k := 0; k < 256; k++ {
				k := k
				cs = append(cs, pcase{fmt.Sprintf("bit %d set, all other bits arbitrary", k), func(pos int) absint.Bit {
					if pos == k {
						return absint.BOne
					}
					return absint.BTop
				}, "false"})
			}
			return cs
		}},
		{"IsOneVartime", "true exactly when the value is 1", func() []pcase {
			cs := []pcase{{"value 1", func(pos int) absint.Bit {
				if pos == 0 {
					return absint.BOne
				}
				return absint.BZero
			}, "true"}, {"bit 0 clear, all other bits arbitrary", func(pos int) absint.Bit {
				if pos == 0 {
					return absint.BZero
				}
				return absint.BTop
			}, "false"}}
			for k := 1; k < 256; k++ {
				k := k
				cs = append(cs, pcase{fmt.Sprintf("bit %d set, all other bits arbitrary", k), func(pos int) absint.Bit {
					if pos == k {
						return absint.BOne
					}
					return absint.BTop
				}, "false"})
			}
			return cs
		}},
	}
	for _, pr := range preds {
		fn := ssau.Func(p, "internal/modm", pr.name)
		if fn == nil {
			r.Fail("V-vartime-predicates", cfg, "modm."+pr.name+" exists", "", "pred:"+pr.name, "function not found")
			continue
		}
		var bad []string
		cs := pr.cases()
		for _, c := range cs {
			got, err := run(fn, c.f)
			if err != nil {
				bad = append(bad, c.name+": "+err.Error())
			} else if got != c.want {
				bad = append(bad, fmt.Sprintf("%s: result is %s, want %s", c.name, got, c.want))
			}
			if len(bad) >= 3 {
				break
			}
		}
		r.Check(len(bad) == 0, "V-vartime-predicates", cfg, "modm."+pr.name+" is "+pr.what, ssau.Pos(p, fn.Pos()),
			fmt.Sprintf("%d abstract cases covering every reduced input, each with a constant result", len(cs)), strings.Join(bad, "; "))
	}
}

// ruleCmov (E-cmov): moveConditionalBytes(out, in, flag) copies all 96 bytes when flag = 1 and changes nothing when
// flag = 0, on every path of the configuration's variant (alignment fast paths through unsafe views, subtle fallback).
func ruleCmov(r *rep.Report, p *load.Program) {
	cfg := p.Cfg.Name
	fn := ssau.Func(p, "internal/ge25519", "moveConditionalBytes")
	if fn == nil {
		return // configuration selects the assembly selector only
	}
	var bad []string
	for _, flag := range []int64{0, 1} {
		it := absint.NewInterp(absint.Hooks{Modular: func(*ssa.Function) bool { return true }, MaxForks: 64})
		mk := func(name string) (absint.PtrV, []absint.Val) {
			o := &absint.Object{Name: name, Kind: "arr", W: 8}
			for j := 0; j < 96; j++ {
				v := absint.Top(8, false)
				v.Sym = absint.FreshSym(fmt.Sprintf("%s[%d]", name, j), 8)
				o.Vals = append(o.Vals, v)
			}
			it.St.Objs = append(it.St.Objs, o)
			return absint.PtrV{Obj: len(it.St.Objs) - 1, Idx: -1}, append([]absint.Val{}, o.Vals...)
		}
		out, out0 := mk("out")
		in, in0 := mk("in")
		it.Call(fn, []absint.AnyVal{out, in, absint.ConstInt(flag, 64, false)}, nil)
		if it.Err != nil {
			bad = append(bad, fmt.Sprintf("flag=%d: %v", flag, it.Err))
			continue
		}
		want := out0
		if flag == 1 {
			want = in0
		}
		for j, v := range it.St.Objs[out.Obj].Vals {
			if v.Sym == nil || v.Sym.Key != want[j].Sym.Key {
				bad = append(bad, fmt.Sprintf("flag=%d: byte %d of the destination is not the %s byte", flag, j, map[int64]string{0: "original", 1: "source"}[flag]))
				break
			}
		}
		for j, v := range it.St.Objs[in.Obj].Vals {
			if v.Sym == nil || v.Sym.Key != in0[j].Sym.Key {
				bad = append(bad, fmt.Sprintf("flag=%d: the source is modified at byte %d", flag, j))
				break
			}
		}
	}
	r.Check(len(bad) == 0, "E-cmov", cfg, "moveConditionalBytes(out, in, flag): flag=1 copies all 96 bytes, flag=0 changes nothing, on every alignment path", ssau.Pos(p, fn.Pos()),
		"both flag values evaluated with value-numbered bytes; all paths joined", strings.Join(bad, "; "))
}

// ruleOutputDefined (O-output-defined): serialisers write every output byte as a function of their input only. The
// abstract run is repeated with the destination pre-filled with 0x00 and with 0xff; any difference in the abstract
// result means a byte is only OR-ed into or skipped, i.e. depends on what the destination held before.
func ruleOutputDefined(r *rep.Report, p *load.Program) {
	cfg := p.Cfg.Name
	weights, widths, w := fieldLayout(p)
	bpl, n, mw := modmLayout(p)
	type job struct {
		pkg, name string
		limbs     int
		lw        int
		bits      func(i int) int
	}
	jobs := []job{
		{"internal/curve25519", "Contract", len(weights), w, func(i int) int { return widths[i] }},
		{"internal/modm", "Contract", n, mw, func(i int) int {
			if (i+1)*bpl > 256 {
				return 256 - i*bpl
			}
			return bpl
		}},
	}
	for _, j := range jobs {
		fn := ssau.Func(p, j.pkg, j.name)
		if fn == nil {
			continue
		}
		var res [2][]absint.Val
		var errs []string
		for k, fill := range []int64{0x00, 0xff} {
			it := absint.NewInterp(absint.Hooks{Modular: func(*ssa.Function) bool { return true }, MaxForks: 64})
			o := &absint.Object{Name: "out", Kind: "arr", W: 8}
			for b := 0; b < 32; b++ {
				o.Vals = append(o.Vals, absint.ConstInt(fill, 8, false))
			}
			it.St.Objs = append(it.St.Objs, o)
			oid := len(it.St.Objs) - 1
			in := &absint.Object{Name: "in", Kind: "arr", W: j.lw}
			for i := 0; i < j.limbs; i++ {
				v := absint.Range(new(big.Int), new(big.Int).Sub(new(big.Int).Lsh(big.NewInt(1), uint(j.bits(i))), big.NewInt(1)), j.lw, false)
				v.Sym = absint.FreshSym(fmt.Sprintf("in[%d]", i), j.lw)
				in.Vals = append(in.Vals, v)
			}
			it.St.Objs = append(it.St.Objs, in)
			iid := len(it.St.Objs) - 1
			it.Call(fn, []absint.AnyVal{absint.SliceV{Obj: oid, Off: 0, Len: 32}, absint.PtrV{Obj: iid, Idx: -1}}, nil)
			if it.Err != nil {
				errs = append(errs, it.Err.Error())
			}
			res[k] = append([]absint.Val{}, it.St.Objs[oid].Vals...)
		}
		var bad []string
		bad = append(bad, errs...)
		if len(errs) == 0 {
			for b := 0; b < 32; b++ {
				x, y := res[0][b], res[1][b]
				same := x.Lo.Cmp(y.Lo) == 0 && x.Hi.Cmp(y.Hi) == 0
				for i := 0; i < 8 && same; i++ {
					bx, by := absint.Bit(-1), absint.Bit(-1)
					if x.Bits != nil {
						bx = x.Bits[i]
					}
					if y.Bits != nil {
						by = y.Bits[i]
					}
					// provenance bits are per-run identities; compare only known constants
					if (bx == 0 || bx == 1 || by == 0 || by == 1) && bx != by {
						same = false
					}
				}
				if !same {
					bad = append(bad, fmt.Sprintf("output byte %d depends on the previous content of the destination (pre-filled 0x00: %v, 0xff: %v)", b, x, y))
					if len(bad) >= 3 {
						break
					}
				}
			}
		}
		r.Check(len(bad) == 0, "O-output-defined", cfg, j.pkg[strings.LastIndex(j.pkg, "/")+1:]+".Contract writes all 32 output bytes as a function of its input only", ssau.Pos(p, fn.Pos()),
			"two abstract runs with the destination pre-filled 0x00 / 0xff give the same 32 abstract bytes", strings.Join(bad, "; "))
	}
}
