package main

import (
	"fmt"
	"math/big"
	"strings"

	"golang.org/x/tools/go/ssa"

	"verif/internal/absint"
	"verif/internal/load"
	"verif/internal/rep"
	"verif/internal/ssau"
)

// bitCase builds a limb array whose bits are known zero, known one or unknown as told by f(globalBitPosition).
// Bits above the nominal limb width are zero (reduced representation).
func bitCase(it *absint.Interp, n, w, bpl int, f func(pos int) absint.Bit) absint.PtrV {
	o := &absint.Object{Name: "a", Kind: "arr", W: w}
	for i := 0; i < n; i++ {
		v := absint.Val{W: w, Lo: new(big.Int), Hi: new(big.Int)}
		v.Bits = make([]absint.Bit, w)
		for b := 0; b < w; b++ {
			bit := absint.BZero
			if b < bpl && i*bpl+b < 256 {
				bit = f(i*bpl + b)
			}
			v.Bits[b] = bit
			switch bit {
			case absint.BOne:
				v.Lo.SetBit(v.Lo, b, 1)
				v.Hi.SetBit(v.Hi, b, 1)
			case absint.BZero:
			default:
				v.Hi.SetBit(v.Hi, b, 1)
			}
		}
		if v.Lo.Cmp(v.Hi) != 0 {
			v.Sym = absint.FreshSym(fmt.Sprintf("a[%d]", i), w)
		} else {
			v = absint.Const(v.Lo, w, false)
		}
		o.Vals = append(o.Vals, v)
	}
	it.St.Objs = append(it.St.Objs, o)
	return absint.PtrV{Obj: len(it.St.Objs) - 1, Idx: -1}
}

// ruleVartimePredicates (V): the three scalar predicates that steer the Bos-Coster loop are decided on a finite family
// of abstract inputs that covers every concrete input: each case fixes some bits and leaves all others unknown, and the
// abstract result must be the same constant on the whole case.
func ruleVartimePredicates(r *rep.Report, p *load.Program) {
	cfg := p.Cfg.Name
	bpl, n, w := modmLayout(p)
	if n == 0 {
		return
	}
	run := func(fn *ssa.Function, f func(int) absint.Bit) (string, error) {
		it := absint.NewInterp(absint.Hooks{Modular: func(*ssa.Function) bool { return true }, MaxForks: 64})
		a := bitCase(it, n, w, bpl, f)
		res := it.Call(fn, []absint.AnyVal{a}, nil)
		if it.Err != nil {
			return "", it.Err
		}
		v, ok := res.(absint.Val)
		if !ok || !v.IsConst() {
			return "undecided", nil
		}
		if v.Int64() != 0 {
			return "true", nil
		}
		return "false", nil
	}
	top := func(int) absint.Bit { return absint.BTop }
	_ = top
	type pcase struct {
		name string
		f    func(int) absint.Bit
		want string
	}
	preds := []struct {
		name  string
		what  string
		cases func() []pcase
	}{
		{"IsAtMost128bitsVartime", "true exactly when every bit at or above 2^128 is zero", func() []pcase {
			cs := []pcase{{"bits 128.. all zero, bits 0..127 arbitrary", func(pos int) absint.Bit {
				if pos >= 128 {
					return absint.BZero
				}
				return absint.BTop
			}, "true"}}
			for k := 128; k < 256; k++ {
				k := k
				cs = append(cs, pcase{fmt.Sprintf("bit %d set, all other bits arbitrary", k), func(pos int) absint.Bit {
					if pos == k {
						return absint.BOne
					}
					return absint.BTop
				}, "false"})
			}
			return cs
		}},
		{"IsZeroVartime", "true exactly when every bit is zero", func() []pcase {
			cs := []pcase{{"all bits zero", func(int) absint.Bit { return absint.BZero }, "true"}}
			for k := 0; k < 256; k++ {
				k := k
				cs = append(cs, pcase{fmt.Sprintf("bit %d set, all other bits arbitrary", k), func(pos int) absint.Bit {
					if pos == k {
						return absint.BOne
					}
					return absint.BTop
				}, "false"})
			}
			return cs
		}},
		{"IsOneVartime", "true exactly when the value is 1", func() []pcase {
			cs := []pcase{{"value 1", func(pos int) absint.Bit {
				if pos == 0 {
					return absint.BOne
				}
				return absint.BZero
			}, "true"}, {"bit 0 clear, all other bits arbitrary", func(pos int) absint.Bit {
				if pos == 0 {
					return absint.BZero
				}
				return absint.BTop
			}, "false"}}
			for k := 1; k < 256; k++ {
				k := k
				cs = append(cs, pcase{fmt.Sprintf("bit %d set, all other bits arbitrary", k), func(pos int) absint.Bit {
					if pos == k {
						return absint.BOne
					}
					return absint.BTop
				}, "false"})
			}
			return cs
		}},
	}
	for _, pr := range preds {
		fn := ssau.Func(p, "internal/modm", pr.name)
		if fn == nil {
			r.Fail("V-vartime-predicates", cfg, "modm."+pr.name+" exists", "", "pred:"+pr.name, "function not found")
			continue
		}
		var bad []string
		cs := pr.cases()
		for _, c := range cs {
			got, err := run(fn, c.f)
			if err != nil {
				bad = append(bad, c.name+": "+err.Error())
			} else if got != c.want {
				bad = append(bad, fmt.Sprintf("%s: result is %s, want %s", c.name, got, c.want))
			}
			if len(bad) >= 3 {
				break
			}
		}
		r.Check(len(bad) == 0, "V-vartime-predicates", cfg, "modm."+pr.name+" is "+pr.what, ssau.Pos(p, fn.Pos()),
			fmt.Sprintf("%d abstract cases covering every reduced input, each with a constant result", len(cs)), strings.Join(bad, "; "))
	}
}
