package main

import (
	"fmt"
	"go/types"
	"os"
	"sort"
	"strings"

	"golang.org/x/tools/go/ssa"

	"verif/internal/absint"
	"verif/internal/engine/b"
	"verif/internal/load"
	"verif/internal/pt"
	"verif/internal/rep"
	"verif/internal/ssau"
)

// ruleSchedules (S-schedule): the digit -> table schedule of the two scalar multiplications, decided semantically.
func ruleSchedules(r *rep.Report, p *load.Program) {
	ruleScheduleBase(r, p)
	ruleScheduleDouble(r, p)
}

type schedEvent struct {
	kind       string // choose | add | dbl | mul-d | init
	pos, digit int
	what       string
	pos0       string
}

// ruleScheduleBase: ScalarmultBaseNiels. Row group pos of the table holds (j+1)·256^pos·B, digit i of the radix-16
// recoding has weight 16^i = 16^(i mod 2)·256^(i div 2); so digit i must be looked up at pos = i/2 and its term must be
// doubled exactly 4·(i mod 2) times after it is added. Rows of pos 0 carry t = 2xy instead of 2dxy: a pos-0 entry used
// through the niels addition needs t·d first, one used as the initial extended point (x = xaddy−ysubx, y = xaddy+ysubx,
// z = 2, t = t2d) does not. Any schedule meeting these conditions is accepted; the statement order is not frozen.
func ruleScheduleBase(r *rep.Report, p *load.Program) {
	cfg := p.Cfg.Name
	fn := ssau.Func(p, "internal/ge25519", "ScalarmultBaseNiels")
	if fn == nil {
		r.Fail("S-schedule", cfg, "ge25519.ScalarmultBaseNiels exists", "", "sched:base", "function not found")
		return
	}
	digitOf := map[string]int{} // value-number key -> digit index
	var events []schedEvent
	var bad []string
	note := func(s string) {
		if len(bad) < 6 {
			bad = append(bad, s)
		}
	}
	fieldOf := func(it *absint.Interp, id int) (parent int, field string) {
		for pi, o := range it.St.Objs {
			for _, k := range o.Kids {
				if k == id {
					n := it.St.Objs[id].Name
					if i := strings.LastIndex(n, "."); i >= 0 {
						n = n[i+1:]
					}
					return pi, n
				}
			}
		}
		return -1, ""
	}
	obj := func(a absint.AnyVal) int {
		if pv, ok := a.(absint.PtrV); ok && pv.Idx == -1 {
			return pv.Obj
		}
		return -1
	}
	chosen := map[int]*schedEvent{} // niels temp object -> what it currently holds
	var rObj int
	initSeen := map[string]string{}
	it := absint.NewInterp(absint.Hooks{Modular: func(*ssa.Function) bool { return true }, Summary: func(it *absint.Interp, f *ssa.Function, args []absint.AnyVal, call ssa.Instruction) (absint.AnyVal, bool) {
		pkg := ssau.PkgSuffix(f)
		switch {
		case pkg == "internal/modm" && f.Name() == "ContractWindow4":
			o := it.St.Objs[obj(args[0])]
			for i := range o.Vals {
				v := absint.Top(o.W, o.Sg)
				v.Sym = absint.FreshSym(fmt.Sprintf("digit[%d]", i), o.W)
				digitOf[v.Sym.Key] = i
				o.Vals[i] = v
			}
			return nil, true
		case pkg == "internal/ge25519" && strings.HasPrefix(ssau.CanonName(f), "scalarmultBaseChooseNiels"):
			ev := schedEvent{kind: "choose", pos: -1, digit: -1}
			if v, ok := args[2].(absint.Val); ok && v.IsConst() {
				ev.pos = int(v.Int64())
			}
			if v, ok := args[3].(absint.Val); ok && v.Sym != nil {
				if d, ok := digitOf[v.Sym.Key]; ok {
					ev.digit = d
				}
			}
			if ev.pos < 0 || ev.digit < 0 {
				note("a table lookup whose position is not a constant or whose digit is not an unmodified recoding digit at " + ssau.InstrPos(p, call))
			}
			e := ev
			chosen[obj(args[0])] = &e
			events = append(events, ev)
			return nil, true
		case pkg == "internal/ge25519" && ssau.CanonName(f) == "nielsAdd2":
			c := chosen[obj(args[1])]
			if obj(args[0]) != rObj || c == nil {
				note("a niels addition that does not add a looked-up entry to the result at " + ssau.InstrPos(p, call))
				return nil, true
			}
			events = append(events, schedEvent{kind: "add", pos: c.pos, digit: c.digit, what: c.what})
			delete(chosen, obj(args[1]))
			return nil, true
		case pkg == "internal/ge25519" && (ssau.CanonName(f) == "doublePartial" || f.Name() == "Double"):
			if obj(args[0]) != rObj || obj(args[1]) != rObj {
				note("a doubling that is not r = 2r at " + ssau.InstrPos(p, call))
			}
			events = append(events, schedEvent{kind: "dbl"})
			return nil, true
		case pkg == "internal/curve25519":
			// field operations on the looked-up entry / the initial point
			if len(args) >= 2 {
				dp, df := fieldOf(it, obj(args[0]))
				switch f.Name() {
				case "Mul":
					ap, af := fieldOf(it, obj(args[1]))
					bo := obj(args[2])
					isD := bo >= 0 && it.St.Objs[bo].Name == "global:ecd"
					if c := chosen[dp]; c != nil && df == "t2d" && ap == dp && af == "t2d" && isD {
						c.what = "t2d*d"
						return nil, true
					}
					note("unexpected field multiplication at " + ssau.InstrPos(p, call))
				case "SubReduce", "Sub", "SubAfterBasic", "AddReduce", "Add", "AddAfterBasic", "Copy":
					if dp == rObj {
						var srcs []string
						for _, a := range args[1:] {
							sp, sf := fieldOf(it, obj(a))
							if c := chosen[sp]; c != nil {
								srcs = append(srcs, sf)
								initSeen["digit"] = fmt.Sprintf("%d/%d/%s", c.pos, c.digit, c.what)
							} else {
								srcs = append(srcs, "?")
							}
						}
						op := strings.TrimSuffix(strings.TrimSuffix(f.Name(), "Reduce"), "AfterBasic")
						initSeen[df] = op + "(" + strings.Join(srcs, ",") + ")"
						return nil, true
					}
					note("unexpected field operation " + f.Name() + " at " + ssau.InstrPos(p, call))
				case "Reset":
					return nil, false
				}
			}
			if f.Name() == "Reset" {
				return nil, false
			}
			return nil, true
		}
		return nil, false
	}})
	rT := fn.Params[0].Type().Underlying().(*types.Pointer).Elem()
	rObj = it.St.Alloc("r", rT, true)
	tbl := it.St.Alloc("table", types.NewArray(types.Typ[types.Uint8], 1), true)
	sObj := it.St.Alloc("s", fn.Params[2].Type().Underlying().(*types.Pointer).Elem(), true)
	it.Call(fn, []absint.AnyVal{absint.PtrV{Obj: rObj, Idx: -1}, absint.PtrV{Obj: tbl, Idx: -1}, absint.PtrV{Obj: sObj, Idx: -1}}, nil)
	if it.Err != nil {
		note(it.Err.Error())
	}
	// the initial point
	if len(initSeen) > 0 {
		want := map[string]string{"x": "Sub(xaddy,ysubx)", "y": "Add(xaddy,ysubx)", "t": "Copy(t2d)"}
		for k, w := range want {
			g := initSeen[k]
			if k == "y" && g == "Add(ysubx,xaddy)" {
				g = w
			}
			if g != w {
				note(fmt.Sprintf("initial point: %s = %s, want %s", k, g, w))
			}
		}
		// z = 2
		for _, k := range it.St.Objs[rObj].Kids {
			o := it.St.Objs[k]
			if strings.HasSuffix(o.Name, ".z") {
				for j, v := range o.Vals {
					w := int64(0)
					if j == 0 {
						w = 2
					}
					if !v.IsConst() || v.Int64() != w {
						note(fmt.Sprintf("initial point: z limb %d is not the constant %d", j, w))
						break
					}
				}
			}
		}
	}
	// weights
	type term struct {
		pos, dbl int
		what     string
		n        int
	}
	terms := map[int]*term{}
	addTerm := func(d, pos int, what string) {
		if t, ok := terms[d]; ok {
			t.n++
			return
		}
		terms[d] = &term{pos: pos, what: what, n: 1}
	}
	initDone := false
	for _, e := range events {
		switch e.kind {
		case "add":
			addTerm(e.digit, e.pos, e.what)
		case "dbl":
			for _, t := range terms {
				t.dbl++
			}
		case "choose":
			if !initDone && len(initSeen) > 0 {
				// the first lookup is consumed by the initial point
				var pos, d int
				var what string
				if _, err := fmt.Sscanf(strings.ReplaceAll(initSeen["digit"], "/", " "), "%d %d %s", &pos, &d, &what); err != nil {
					fmt.Sscanf(strings.ReplaceAll(initSeen["digit"], "/", " "), "%d %d", &pos, &d)
				}
				terms[d] = &term{pos: pos, what: "init" + what, n: 1}
				initDone = true
			}
		}
	}
	// the initial point must be set before any doubling/addition (dbl counts start at its creation): it is event 0..k
	var idx []int
	for d := range terms {
		idx = append(idx, d)
	}
	sort.Ints(idx)
	for i := 0; i < 64; i++ {
		t, ok := terms[i]
		switch {
		case !ok:
			note(fmt.Sprintf("digit %d of the recoding is never added", i))
		case t.n != 1:
			note(fmt.Sprintf("digit %d is added %d times", i, t.n))
		case t.pos != i/2:
			note(fmt.Sprintf("digit %d is looked up at table position %d, want %d", i, t.pos, i/2))
		case t.dbl != 4*(i%2):
			note(fmt.Sprintf("digit %d is doubled %d times after it is added, want %d", i, t.dbl, 4*(i%2)))
		case t.pos == 0 && t.what == "":
			note(fmt.Sprintf("digit %d: a position-0 entry (t = 2xy) is added through the niels formula without multiplying t by d", i))
		case t.pos == 0 && t.what == "initt2d*d":
			note(fmt.Sprintf("digit %d: the initial extended point takes t = 2xy, but t was multiplied by d", i))
		case t.pos != 0 && t.what != "":
			note(fmt.Sprintf("digit %d: an entry of position %d (t = 2dxy already) is multiplied by d again", i, t.pos))
		}
	}
	if len(idx) > 64 {
		note(fmt.Sprintf("%d distinct digits are used, the recoding has 64", len(idx)))
	}
	r.Check(len(bad) == 0, "S-schedule", cfg, "ScalarmultBaseNiels: digit i is looked up at table position i/2, added once, and doubled 4·(i mod 2) times afterwards; position-0 entries get t·d exactly when used through the niels addition", ssau.Pos(p, fn.Pos()),
		fmt.Sprintf("%d lookups, %d additions, %d doublings traced with symbolic digits", countKind(events, "choose"), countKind(events, "add"), countKind(events, "dbl")), strings.Join(bad, "; "))
}

func countKind(es []schedEvent, k string) int {
	n := 0
	for _, e := range es {
		if e.kind == k {
			n++
		}
	}
	return n
}

// ruleScheduleDouble: DoubleScalarmultVartime computes [s1]P + [s2]B with two signed sliding windows.
func ruleScheduleDouble(r *rep.Report, p *load.Program) {
	cfg := p.Cfg.Name
	fn := ssau.Func(p, "internal/ge25519", "DoubleScalarmultVartime")
	if fn == nil {
		r.Fail("S-schedule", cfg, "ge25519.DoubleScalarmultVartime exists", "", "sched:double", "function not found")
		return
	}
	var bad []string
	note := func(f string, a ...interface{}) {
		if len(bad) < 6 {
			bad = append(bad, fmt.Sprintf(f, a...))
		}
	}
	loops := b.Loops(fn)
	isHeader := map[*ssa.BasicBlock]bool{}
	for _, l := range loops {
		isHeader[l.Header] = true
	}
	debug := os.Getenv("EDCHECK_SCHED") != ""
	show := func(tag string, paths []*pt.Path) {
		if !debug {
			return
		}
		for i, pa := range paths {
			fmt.Printf("== %s path %d kind=%s\n", tag, i, pa.Kind)
			for _, a := range pa.Atoms {
				fmt.Printf("   atom %v %.200s\n", a.Val, a.Key)
			}
			for _, e := range pa.Events {
				fmt.Printf("   ev %s args=%.300v addrs=%.200v\n", e.Callee, e.Args, e.Addrs)
			}
		}
	}
	m := geModel()
	arrLen := func(name string) int {
		for _, blk := range fn.Blocks {
			for _, in := range blk.Instrs {
				if al, ok := in.(*ssa.Alloc); ok && al.Comment == name {
					if at, ok := al.Type().(*types.Pointer).Elem().Underlying().(*types.Array); ok {
						return int(at.Len())
					}
				}
			}
		}
		return -1
	}
	localOf := func(t *pt.Term) string { // addr(local:x) or addr(local:x[0]) / addr(local:x,idx) -> x
		if t == nil {
			return ""
		}
		s := t.String()
		if !strings.HasPrefix(s, "addr(local:") {
			return ""
		}
		s = strings.TrimPrefix(s, "addr(local:")
		for i, c := range s {
			if c == ')' || c == ',' || c == '[' {
				return s[:i]
			}
		}
		return s
	}
	// ---- prologue: both recodings, 2P and the first table entry
	pro, err := pt.EnumerateRegion(fn, m, nil, func(bb *ssa.BasicBlock) bool { return isHeader[bb] })
	if err != nil || len(pro) != 1 {
		note("prologue is not a single straight path (%v)", err)
		r.Check(false, "S-schedule", cfg, "DoubleScalarmultVartime: schedule", ssau.Pos(p, fn.Pos()), "", strings.Join(bad, "; "))
		return
	}
	show("prologue", pro)
	var slideA, slideB, dbl, tab string
	wA, wB := -1, -1
	for _, e := range pro[0].Events {
		switch e.Callee {
		case "modm.ContractSlidingWindow":
			w, _ := constOf(e.Args[2])
			switch addrStr(e, 1) {
			case "addr(P2)":
				slideA, wA = localOf(e.Addrs[0]), int(w)
			case "addr(P3)":
				slideB, wB = localOf(e.Addrs[0]), int(w)
			default:
				note("a sliding-window recoding of something other than the two scalar arguments")
			}
		case "ge25519.Double":
			if addrStr(e, 1) == "addr(P1)" {
				dbl = localOf(e.Addrs[0])
			}
		case "ge25519.fullToPniels":
			if addrStr(e, 1) == "addr(P1)" && strings.HasSuffix(addrStr(e, 0), "[0])") {
				tab = localOf(e.Addrs[0])
			}
		default:
			note("unexpected call %s before the table is built", e.Callee)
		}
	}
	if slideA == "" || slideB == "" || slideA == slideB || dbl == "" || tab == "" {
		note("prologue does not recode s1 and s2 into two digit arrays and set up 2·P and table[0] = P (found %q %q %q %q)", slideA, slideB, dbl, tab)
	}
	nTab, nSlide := arrLen(tab), arrLen(slideA)
	if wA < 2 || nTab != 1<<uint(wA-2) {
		note("table of P has %d entries, a width-%d window needs %d odd multiples", nTab, wA, 1<<uint(wA-2))
	}
	gB := 0
	if gl := ssau.Global(p, "internal/ge25519", "nielsSlidingMultiples"); gl != nil {
		if at, ok := gl.Type().(*types.Pointer).Elem().Underlying().(*types.Array); ok {
			gB = int(at.Len())
		}
	}
	if wB < 2 || gB != 1<<uint(wB-2) {
		note("table of B has %d entries, a width-%d window needs %d odd multiples", gB, wB, 1<<uint(wB-2))
	}
	// ---- loops by role
	var pre, scan, main *b.Loop
	for _, l := range loops {
		calls := map[string]bool{}
		for blk := range l.Blocks {
			for _, in := range blk.Instrs {
				if c, ok := in.(*ssa.Call); ok {
					if f := c.Common().StaticCallee(); f != nil {
						calls[ssau.CanonName(f)] = true
					}
				}
			}
		}
		switch {
		case calls["pnielsAdd"]:
			pre = l
		case calls["doubleP1p1"]:
			main = l
		case len(calls) == 0:
			scan = l
		}
	}
	if pre == nil || scan == nil || main == nil || len(loops) != 3 {
		note("expected three loops (table build, leading-zero scan, main loop), found %d", len(loops))
		r.Check(false, "S-schedule", cfg, "DoubleScalarmultVartime: schedule", ssau.Pos(p, fn.Pos()), "", strings.Join(bad, "; "))
		return
	}
	region := func(l *b.Loop) []*pt.Path {
		ps, err := pt.EnumerateRegion(fn, m, l.Header, func(bb *ssa.BasicBlock) bool { return bb == l.Header || !l.Blocks[bb] })
		if err != nil {
			note("loop: %v", err)
		}
		for _, pa := range ps {
			pt.NormalisePath(pa)
		}
		return ps
	}
	counter := func(l *b.Loop) (leaf string, init ssa.Value, step int64) {
		for _, in := range l.Header.Instrs {
			ph, ok := in.(*ssa.Phi)
			if !ok || ph.Type().String() != "int" {
				continue
			}
			for ei, e := range ph.Edges {
				if l.Blocks[l.Header.Preds[ei]] {
					if bo, ok := e.(*ssa.BinOp); ok && bo.X == ph {
						if n, ok := constInt(bo.Y); ok {
							switch bo.Op.String() {
							case "+":
								step = n
							case "-":
								step = -n
							}
						}
					}
				} else {
					init = e
				}
			}
			if step != 0 {
				return pt.PhiName(ph), init, step
			}
		}
		return "", nil, 0
	}
	// ---- table build: tab[i+1] = 2P + tab[i] for i = 0 .. n-2
	{
		leaf, init, step := counter(pre)
		i0, isC := int64(-1), false
		if init != nil {
			i0, isC = constInt(init)
		}
		okShape := false
		for _, pa := range region(pre) {
			if len(pa.Events) == 0 {
				continue
			}
			e := pa.Events[0]
			want := []string{"addr(local:" + tab + ",add(#1," + leaf + "))", "addr(local:" + dbl + ")", "addr(local:" + tab + "," + leaf + ")"}
			got := []string{addrStr(e, 0), addrStr(e, 1), addrStr(e, 2)}
			bound := ""
			for _, a := range pa.Atoms {
				if a.Block == pre.Header {
					bound = a.Key
				}
			}
			if len(pa.Events) == 1 && e.Callee == "ge25519.pnielsAdd" && strings.Join(got, " ") == strings.Join(want, " ") && bound == fmt.Sprintf("lt(%s,#%d)", leaf, nTab-1) {
				okShape = true
			} else {
				note("table build step is %s(%s) under %s, want pnielsAdd(tab[i+1], 2P, tab[i]) for i < %d", e.Callee, strings.Join(got, ", "), bound, nTab-1)
			}
		}
		if !okShape || !isC || i0 != 0 || step != 1 {
			note("the table of odd multiples is not built as tab[0] = P, tab[i+1] = 2P + tab[i], i = 0..%d", nTab-2)
		}
	}
	// ---- neutral element before the scan
	{
		var exit *ssa.BasicBlock
		for _, s := range pre.Header.Succs {
			if !pre.Blocks[s] {
				exit = s
			}
		}
		seen := map[string]bool{}
		if exit != nil {
			ps, _ := pt.EnumerateRegion(fn, m, exit, func(bb *ssa.BasicBlock) bool { return isHeader[bb] })
			for _, pa := range ps {
				for _, e := range pa.Events {
					switch {
					case strings.HasSuffix(e.Callee, ".Reset") && addrStr(e, 0) == "addr(P0)":
						seen["reset"] = true
					case e.Callee == "store" && len(e.Args) == 1 && e.Args[0].String() == "#1":
						seen[addrStr(e, 0)] = true
					default:
						note("unexpected %s while the accumulator is initialised", e.Callee)
					}
				}
			}
		}
		if !seen["reset"] || !seen["addr(local:P0.y,#0)"] || !seen["addr(local:P0.z,#0)"] || len(seen) != 3 {
			note("the accumulator is not initialised to the neutral element (0, 1, 1, 0)")
		}
	}
	// ---- leading-zero scan: i = len-1 downwards while both digits are zero
	var scanLeaf string
	{
		leaf, init, step := counter(scan)
		scanLeaf = leaf
		i0, isC := int64(-1), false
		if init != nil {
			i0, isC = constInt(init)
		}
		if !isC || int(i0) != nSlide-1 || step != -1 {
			note("the scan for the first non-zero digit does not run from %d downwards", nSlide-1)
		}
		// decision structure: continue iff i >= 0 and both digits are zero (any spelling of the test)
		zA := fmt.Sprintf("eq(#0,local:%s[%s])", slideA, leaf)
		zB := fmt.Sprintf("eq(#0,local:%s[%s])", slideB, leaf)
		zAB := fmt.Sprintf("eq(#0,or(local:%s[%s],local:%s[%s]))", slideA, leaf, slideB, leaf)
		zBA := fmt.Sprintf("eq(#0,or(local:%s[%s],local:%s[%s]))", slideB, leaf, slideA, leaf)
		neg := fmt.Sprintf("lt(%s,#0)", leaf)
		paths := region(scan)
		for w := 0; w < 8; w++ {
			world := map[string]bool{neg: w&1 != 0, zA: w&2 != 0, zB: w&4 != 0}
			world[zAB] = world[zA] && world[zB]
			world[zBA] = world[zAB]
			n := 0
			for _, pa := range paths {
				ok := true
				for _, a := range pa.Atoms {
					v, known := world[a.Key]
					if !known {
						note("leading-zero scan tests %s", a.Key)
						ok = false
						break
					}
					if v != a.Val {
						ok = false
						break
					}
				}
				if !ok {
					continue
				}
				n++
				back := pa.StopAt == scan.Header
				want := !world[neg] && world[zA] && world[zB]
				if back != want || len(pa.Events) != 0 {
					note("leading-zero scan: with i<0=%v, s1 digit zero=%v, s2 digit zero=%v the scan continues=%v, want %v", world[neg], world[zA], world[zB], back, want)
				}
			}
			if n != 1 {
				note("leading-zero scan: %d paths for one case", n)
			}
		}
	}
	// ---- main loop
	{
		leaf, init, step := counter(main)
		if step != -1 {
			note("the main loop does not step down by one digit")
		}
		if ph, ok := init.(*ssa.Phi); !ok || pt.PhiName(ph) != scanLeaf {
			note("the main loop does not start at the digit found by the scan")
		}
		dA := fmt.Sprintf("local:%s[%s]", slideA, leaf)
		dB := fmt.Sprintf("local:%s[%s]", slideB, leaf)
		// the absolute-value helper
		absName := ""
		paths := region(main)
		show("main", paths)
		for _, pa := range paths {
			for _, e := range pa.Events {
				if len(e.Args) == 1 && (e.Args[0].String() == dA || e.Args[0].String() == dB) && e.Callee != "store" {
					absName = e.Callee
				}
			}
		}
		if absName != "" {
			var af *ssa.Function
			for _, an := range fn.AnonFuncs {
				if strings.HasSuffix(absName, "."+an.Name()) || strings.HasSuffix(absName, an.Name()) {
					af = an
				}
			}
			if af == nil {
				if i := strings.LastIndex(absName, "."); i >= 0 {
					af = ssau.Func(p, "internal/ge25519", absName[i+1:])
				}
			}
			okAbs := af != nil
			if af != nil {
				aps, err := pt.Enumerate(af, geModel())
				if err != nil || len(aps) != 2 {
					okAbs = false
				}
				for _, pa := range aps {
					if len(pa.Atoms) != 1 || pa.Atoms[0].Key != "lt(P0,#0)" || len(pa.Results) != 1 {
						okAbs = false
						continue
					}
					got := pa.Results[0].String()
					if pa.Atoms[0].Val && got != "neg(conv:int(P0))" && got != "subtract(#0,conv:int(P0))" {
						okAbs = false
					}
					if !pa.Atoms[0].Val && got != "conv:int(P0)" {
						okAbs = false
					}
				}
			}
			if !okAbs {
				note("the helper %s is not the absolute value", absName)
			}
		}
		idx := func(d string) string { return "quo(" + absName + "(" + d + "),#2)" }
		sign := func(d string) string { return "shr(conv:uint8(" + d + "),#7)" }
		t0 := "ge25519.doubleP1p1(P0)"
		for _, pa := range paths {
			vals := map[string]bool{}
			for _, a := range pa.Atoms {
				vals[a.Key] = a.Val
			}
			known := 0
			for k := range vals {
				switch k {
				case "lt(" + leaf + ",#0)", "eq(#0," + dA + ")", "eq(#0," + dB + ")":
					known++
				}
			}
			if known != len(vals) {
				note("the main loop tests something other than the loop bound and the two digits being zero")
				continue
			}
			if vals["lt("+leaf+",#0)"] {
				if len(pa.Events) != 0 || pa.StopAt == main.Header {
					note("the main loop does work after the last digit")
				}
				continue
			}
			want := t0
			if !vals["eq(#0,"+dA+")"] {
				want = "ge25519.pnielsAddP1P1Vartime(ge25519.p1p1ToFull(" + want + "),ptr(local:" + tab + "," + idx(dA) + ")," + sign(dA) + ")"
			}
			if !vals["eq(#0,"+dB+")"] {
				want = "ge25519.nielsAdd2P1p1Vartime(ge25519.p1p1ToFull(" + want + "),ptr(G:ge25519.nielsSlidingMultiples," + idx(dB) + ")," + sign(dB) + ")"
			}
			if len(pa.Events) == 0 {
				note("a main-loop iteration without operations")
				continue
			}
			last := pa.Events[len(pa.Events)-1]
			got := ""
			if len(last.Args) == 2 {
				got = last.Args[1].String()
			}
			if last.Callee != "ge25519.p1p1ToPartial" || addrStr(last, 0) != "addr(P0)" || got != want || pa.StopAt != main.Header {
				note("iteration with digits (s1 %s, s2 %s): accumulator becomes %s of a term that differs from the specification at %s", nz(!vals["eq(#0,"+dA+")"]), nz(!vals["eq(#0,"+dB+")"]), last.Callee, diffAt(got, want))
			}
		}
	}
	r.Check(len(bad) == 0, "S-schedule", cfg, "DoubleScalarmultVartime: s1 is recoded with the window whose table is (2k+1)·P, s2 with the window of the static table; every digit position doubles once, then adds ±table[|d|/2] with the digit's sign bit, from the highest non-zero digit down to 0", ssau.Pos(p, fn.Pos()),
		fmt.Sprintf("windows %d/%d, tables %d/%d, table build, neutral start, scan and 4 digit cases compared with the specification terms", wA, wB, nTab, gB), strings.Join(bad, "; "))
}

// diffAt shows the neighbourhood of the first difference between two renderings.
func diffAt(got, want string) string {
	i := 0
	for i < len(got) && i < len(want) && got[i] == want[i] {
		i++
	}
	lo := i - 50
	if lo < 0 {
		lo = 0
	}
	cut := func(s string) string {
		hi := i + 40
		if hi > len(s) {
			hi = len(s)
		}
		if lo > len(s) {
			return ""
		}
		return s[lo:hi]
	}
	return fmt.Sprintf("…%s… (want …%s…)", cut(got), cut(want))
}

func nz(b bool) string {
	if b {
		return "non-zero"
	}
	return "zero"
}

var _ = ssa.NewProgram
