package main

import (
	"fmt"
	"os"
	"strings"

	"golang.org/x/tools/go/ssa"

	"verif/internal/pt"
	"verif/internal/ssau"
)

// dumpPaths prints the paths of a function (debug aid): edcheck -dump pkg:Func
func dumpPaths(spec string, cfgName string) {
	c := newCtx("quick")
	p, rl, err := c.Roles(cfgName)
	if err != nil {
		fmt.Println(err)
		os.Exit(2)
	}
	parts := strings.SplitN(spec, ":", 2)
	if strings.HasPrefix(spec, ":") {
		spec = spec[1:]
	}
	var fn *ssa.Function
	for _, f := range ssau.AllFuncs(p) {
		if ssau.QName(f) == spec || (len(parts) == 2 && ssau.PkgSuffix(f) == parts[0] && f.Name() == parts[1]) {
			fn = f
		}
	}
	if fn == nil {
		fmt.Println("function not found; known:")
		for _, f := range ssau.AllFuncs(p) {
			fmt.Println(" ", ssau.QName(f))
		}
		os.Exit(2)
	}
	m := rootModel(rl)
	paths, err := pt.Enumerate(fn, m)
	if err != nil {
		fmt.Println("ERR", err)
	}
	for i, pa := range paths {
		pt.NormalisePath(pa)
		fmt.Printf("--- path %d: %s %v\n", i, pa.Kind, pa.Results)
		for _, a := range pa.Atoms {
			fmt.Printf("   atom %-5v loop=%v %s @%s\n", a.Val, a.Loop, a.Key, ssau.Pos(p, a.Pos))
		}
		for _, s := range pa.Sums {
			fmt.Printf("   sum %v\n", s.Transcript)
		}
		for _, e := range pa.Events {
			fmt.Printf("   call %s %v\n", e.Callee, e.Args)
		}
		for k, v := range pa.Finals {
			fmt.Printf("   final %s = %s\n", k, v)
		}
		if len(pa.HashOpen) > 0 {
			fmt.Printf("   hash open at exit: %v\n", pa.HashOpen)
		}
		for _, u := range pa.Unrec {
			fmt.Printf("   UNREC %s\n", u)
		}
	}
}
