package main

import (
	"fmt"
	"os"
	"strings"

	"golang.org/x/tools/go/ssa"

	"verif/internal/engine/b"
	"verif/internal/pt"
	"verif/internal/ssau"
)

// dumpPaths prints the paths of a function (debug aid): edcheck -dump pkg:Func
func dumpPaths(spec string, cfgName string) {
	c := newCtx("quick")
	p, rl, err := c.Roles(cfgName)
	if err != nil {
		fmt.Println(err)
		os.Exit(2)
	}
	parts := strings.SplitN(spec, ":", 2)
	if strings.HasPrefix(spec, ":") {
		spec = spec[1:]
	}
	var fn *ssa.Function
	for _, f := range ssau.AllFuncs(p) {
		if ssau.QName(f) == spec || (len(parts) == 2 && ssau.PkgSuffix(f) == parts[0] && f.Name() == parts[1]) {
			fn = f
		}
	}
	if fn == nil {
		fmt.Println("function not found; known:")
		for _, f := range ssau.AllFuncs(p) {
			fmt.Println(" ", ssau.QName(f))
		}
		os.Exit(2)
	}
	m := rootModel(rl)
	paths, err := pt.Enumerate(fn, m)
	if err != nil {
		fmt.Println("ERR", err)
	}
	for i, pa := range paths {
		pt.NormalisePath(pa)
		fmt.Printf("--- path %d: %s %v\n", i, pa.Kind, pa.Results)
		for _, a := range pa.Atoms {
			fmt.Printf("   atom %-5v loop=%v %s @%s\n", a.Val, a.Loop, a.Key, ssau.Pos(p, a.Pos))
		}
		for _, s := range pa.Sums {
			fmt.Printf("   sum %v\n", s.Transcript)
		}
		for _, e := range pa.Events {
			fmt.Printf("   call %s %v\n", e.Callee, e.Args)
		}
		for k, v := range pa.Finals {
			fmt.Printf("   final %s = %s\n", k, v)
		}
		if len(pa.HashOpen) > 0 {
			fmt.Printf("   hash open at exit: %v\n", pa.HashOpen)
		}
		for _, u := range pa.Unrec {
			fmt.Printf("   UNREC %s\n", u)
		}
	}
}

// dumpRegions prints, for every loop of fn, the one-iteration paths (debug aid).
func dumpRegions(spec, cfgName string) {
	c := newCtx("quick")
	p, rl, err := c.Roles(cfgName)
	if err != nil {
		fmt.Println(err)
		os.Exit(2)
	}
	spec = strings.TrimPrefix(spec, ":")
	var fn *ssa.Function
	for _, f := range ssau.AllFuncs(p) {
		if ssau.QName(f) == spec {
			fn = f
		}
	}
	if fn == nil {
		fmt.Println("not found")
		os.Exit(2)
	}
	loops := b.Loops(fn)
	m := rootModel(rl)
	if os.Getenv("EDCHECK_PROLOGUE") != "" {
		hdr := map[*ssa.BasicBlock]bool{}
		for _, l := range loops {
			hdr[l.Header] = true
		}
		paths, err := pt.EnumerateRegion(fn, m, nil, func(bb *ssa.BasicBlock) bool { return hdr[bb] })
		fmt.Println("prologue paths", len(paths), err)
		for i, pa := range paths {
			pt.NormalisePath(pa)
			fmt.Printf("--- path %d: %s %v\n", i, pa.Kind, pa.Results)
			for _, a := range pa.Atoms {
				fmt.Printf("   atom %-5v %s\n", a.Val, a.Key)
			}
			for _, e := range pa.Events {
				fmt.Printf("   ev %s args=%v addrs=%v\n", e.Callee, e.Args, e.Addrs)
			}
		}
		return
	}
	for _, l := range loops {
		par := -1
		if l.Parent != nil {
			par = l.Parent.Header.Index
		}
		fmt.Printf("===== loop header=%d blocks=%d parent=%d inner=%d\n", l.Header.Index, len(l.Blocks), par, len(l.Inner))
		if len(l.Inner) > 0 {
			continue
		}
		ll := l
		paths, err := pt.EnumerateRegion(fn, m, l.Header, func(bb *ssa.BasicBlock) bool { return bb == ll.Header || !ll.Blocks[bb] })
		if err != nil {
			fmt.Println("ERR", err)
		}
		for i, pa := range paths {
			pt.NormalisePath(pa)
			stop := -1
			if pa.StopAt != nil {
				stop = pa.StopAt.Index
			}
			fmt.Printf("--- path %d: %s stop=%d %v\n", i, pa.Kind, stop, pa.Results)
			for _, a := range pa.Atoms {
				fmt.Printf("   atom %-5v %s\n", a.Val, a.Key)
			}
			for _, e := range pa.Events {
				fmt.Printf("   ev %s args=%v addrs=%v\n", e.Callee, e.Args, e.Addrs)
			}
			for _, u := range pa.Unrec {
				fmt.Printf("   UNREC %s\n", u)
			}
		}
	}
}
