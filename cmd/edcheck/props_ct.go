package main

import (
	"fmt"
	"path/filepath"
	"strings"

	"golang.org/x/tools/go/ssa"

	"verif/internal/engine/t"
	"verif/internal/engine/z"
	"verif/internal/lit"
	"verif/internal/load"
	"verif/internal/mem"
	"verif/internal/rep"
	"verif/internal/ssau"
)

func init() { register("C20", "proof", checkC20) }

type ctEntry struct {
	name    string
	fn      func(p *load.Program) *ssa.Function
	content []int
	value   []int
	read    bool
	why     string
}

var ctEntries = []ctEntry{
	{"NewKeyFromSeed", func(p *load.Program) *ssa.Function { return ssau.Func(p, "", "NewKeyFromSeed") }, []int{0}, nil, false, "seed"},
	{"GenerateKey", func(p *load.Program) *ssa.Function { return ssau.Func(p, "", "GenerateKey") }, nil, nil, true, "bytes read from the entropy source are the seed"},
	{"Sign", func(p *load.Program) *ssa.Function { return ssau.Func(p, "", "Sign") }, []int{0}, nil, false, "private key"},
	{"PrivateKey.Sign", func(p *load.Program) *ssa.Function { return ssau.Method(p, "", "PrivateKey", "Sign") }, []int{0}, nil, false, "private key (receiver)"},
	{"PrivateKey.Equal", func(p *load.Program) *ssa.Function { return ssau.Method(p, "", "PrivateKey", "Equal") }, []int{0, 1}, nil, false, "both keys"},
	{"PrivateKey.Seed", func(p *load.Program) *ssa.Function { return ssau.Method(p, "", "PrivateKey", "Seed") }, []int{0}, nil, false, "private key"},
	{"x25519.ScalarBaseMult", func(p *load.Program) *ssa.Function { return ssau.Func(p, "extra/x25519", "ScalarBaseMult") }, []int{1}, nil, false, "scalar"},
	{"x25519.X25519", func(p *load.Program) *ssa.Function { return ssau.Func(p, "extra/x25519", "X25519") }, []int{0}, nil, false, "scalar"},
	{"x25519.EdPrivateKeyToX25519", func(p *load.Program) *ssa.Function { return ssau.Func(p, "extra/x25519", "EdPrivateKeyToX25519") }, []int{0}, nil, false, "private key"},
}

func ruleTaint(r *rep.Report, p *load.Program) {
	cfg := p.Cfg.Name
	an := t.New(mem.New())
	for _, e := range ctEntries {
		fn := e.fn(p)
		if fn == nil {
			r.Fail("role", cfg, "entry point "+e.name+" exists", "", "role:"+e.name, "entry point not found")
			continue
		}
		before := len(an.Sinks)
		ctxBefore := an.Contexts
		an.Entry(fn, e.content, e.value, e.read)
		sinks := an.Sinks[before:]
		t.SortSinks(sinks)
		if len(sinks) == 0 {
			r.OK("T-no-secret-sink", cfg, e.name+": no secret-dependent branch, address, variable-time callee or variable-latency operation", fmt.Sprintf("secret: %s; %d calling contexts analysed", e.why, an.Contexts-ctxBefore))
		}
		for _, s := range sinks {
			r.Fail("T-no-secret-sink", cfg, e.name+": no secret-dependent branch, address, variable-time callee or variable-latency operation", ssau.InstrPos(p, s.Instr),
				"sink:"+s.Kind+":"+ssau.QName(s.Fn), s.Describe()+" in "+ssau.QName(s.Fn)+": "+s.Instr.String())
		}
	}
	r.Count("taint-contexts", an.Contexts)
	r.Count("tainted-values", an.Values)
}

func ruleAsm(r *rep.Report, p *load.Program) {
	cfg := p.Cfg.Name
	var asm []string
	for _, f := range p.Files[load.ModPath+"/internal/ge25519"] {
		if strings.HasSuffix(f, ".s") {
			asm = append(asm, f)
		}
	}
	// the assembly is only *used* when the Go declaration is compiled in
	used := ssau.Func(p, "internal/ge25519", "scalarmultBaseChooseNielsAMD64") != nil
	if !used {
		r.OK("Z-asm", cfg, "assembly selector not used in this configuration", fmt.Sprintf("%d .s files selected but no Go declaration", len(asm)))
		return
	}
	if len(asm) != 1 {
		r.Fail("Z-asm", cfg, "exactly one assembly file backs the declared assembly routine", "", "asm:files", fmt.Sprintf("assembly files: %v", asm))
		return
	}
	res, err := z.Lint(filepath.Join(p.Repo, asm[0]))
	if err != nil {
		r.Fail("Z-asm", cfg, "assembly file parses", asm[0], "asm:parse", err.Error())
		return
	}
	for _, f := range res.Findings {
		r.Fail("Z-asm", cfg, "assembly selector is branch-free with constant addressing", fmt.Sprintf("%s:%d", asm[0], f.Line), "asm:"+f.Msg, f.Msg)
	}
	cpkg := p.Pkg("internal/curve25519")
	get := func(n string) uint64 {
		v, ok := lit.ConstInt(cpkg, n)
		if !ok {
			return 0
		}
		return v.Uint64()
	}
	probs := z.CheckSelector(res, get("twoP0"), get("twoP1234"), get("reduceMask51"))
	for _, m := range probs {
		r.Fail("Z-asm", cfg, "assembly selector scans all 8 table entries at constant offsets and uses the field package's constants", asm[0], "asm:"+m, m)
	}
	if len(res.Findings) == 0 && len(probs) == 0 {
		r.OK("Z-asm", cfg, "assembly selector is branch-free with constant addressing", fmt.Sprintf("%d instructions, %d table loads, %d stores, compare constants %v", res.Instrs, len(res.Loads), len(res.Stores), res.Compares))
	}
	r.Count("asm-instructions", res.Instrs)
}

func checkC20(c *Ctx, r *rep.Report) {
	r.Explanation = "T: for each entry point with its secret inputs marked, no tainted value reaches a branch condition, an index or slice bound, a variable-time callee, a division or a variable shift, on every configuration of the tier (context-sensitive object-level taint over the provenance analysis); Z: the assembly selector is branch-free, addresses memory only at constant offsets from its two pointer arguments and scans all table entries. Zero sinks => any two executions that differ only in secrets take the same branches and touch the same addresses in the module's own code."
	r.NotDecided = "compiler and CPU behaviour; constant-time behaviour of crypto/subtle, crypto/sha512, math/bits.Mul64/Add64 and x/crypto (trusted base)"
	r.Trust("externals marked constant-time: crypto/sha512, crypto/subtle, math/bits.Mul64/Add64 (README caveat), golang.org/x/crypto/curve25519")
	r.Trust("declassified: the one-bit result of subtle.ConstantTimeCompare; n/err of io.ReadFull and hash writes")
	r.Trust("the Go compiler introduces no secret-dependent branches")
	c.Preload(c.Configs())
	for _, cfg := range c.Configs() {
		p, _ := c.mustLoad(r, cfg)
		if p == nil {
			continue
		}
		ruleTaint(r, p)
		ruleAsm(r, p)
	}
}
