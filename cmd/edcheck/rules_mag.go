package main

import (
	"fmt"
	"go/types"
	"math/big"
	"sort"
	"strings"

	"golang.org/x/tools/go/ssa"

	"verif/internal/absint"
	"verif/internal/lit"
	"verif/internal/load"
	"verif/internal/rep"
	"verif/internal/ssau"
)

// class is the magnitude class of a struct of field elements: per field, per limb, an upper bound (nil = bottom).
type class [][]*big.Int

func (c class) bottom() bool { return c == nil }

func joinClass(a, b class) (class, bool) {
	if a == nil {
		return b, b != nil
	}
	if b == nil {
		return a, false
	}
	ch := false
	out := make(class, len(a))
	for i := range a {
		out[i] = make([]*big.Int, len(a[i]))
		for j := range a[i] {
			out[i][j] = a[i][j]
			if b[i][j].Cmp(a[i][j]) > 0 {
				out[i][j] = b[i][j]
				ch = true
			}
		}
	}
	return out, ch
}

func (c class) String() string {
	var fs []string
	for _, f := range c {
		m := 0
		for _, l := range f {
			if l.BitLen() > m {
				m = l.BitLen()
			}
		}
		fs = append(fs, fmt.Sprintf("2^%d", m))
	}
	return "{" + strings.Join(fs, ",") + "}"
}

// magDriver runs the group-law functions over magnitude classes to a fixpoint.
type magDriver struct {
	p        *load.Program
	r        *rep.Report
	nLimbs   int
	w        int
	classes  map[string]class
	findings map[string]string // key -> message (from the last sweep)
	pos      map[string]string
	steps    int
	runs     int
	asmSel   bool
	cache    map[string][][]absint.Val // leaf-function summaries: key -> per pointer argument, final limb values
	hits     int
	// engine X (rules_exact.go)
	weights     []int
	exact       map[string]string
	exactPos    map[string]*ssa.Function
	exactOK     map[string]int
	exactN      int
	exactActive bool
}

func (d *magDriver) structFields(t types.Type) int {
	st, ok := t.Underlying().(*types.Struct)
	if !ok {
		return 1
	}
	return st.NumFields()
}

// allocClass creates an object of type t whose limbs are bounded by c.
func (d *magDriver) allocClass(it *absint.Interp, name string, t types.Type, c class) int {
	id := it.St.Alloc(name, t, true)
	o := it.St.Objs[id]
	set := func(arr *absint.Object, bounds []*big.Int, fname string) {
		for j := range arr.Vals {
			hi := big.NewInt(0)
			if bounds != nil && j < len(bounds) {
				hi = bounds[j]
			}
			v := absint.Range(new(big.Int), hi, arr.W, false)
			v.Sym = absint.FreshSym(fmt.Sprintf("%s.%s[%d]#%d", name, fname, j, d.runs), arr.W)
			arr.Vals[j] = v
		}
	}
	if o.Kind == "arr" {
		if c != nil {
			set(o, c[0], "")
		}
		return id
	}
	for i, k := range o.Kids {
		var b []*big.Int
		if c != nil && i < len(c) {
			b = c[i]
		}
		set(it.St.Objs[k], b, fmt.Sprint(i))
	}
	return id
}

func (d *magDriver) readClass(it *absint.Interp, id int) class {
	o := it.St.Objs[id]
	rd := func(arr *absint.Object) []*big.Int {
		out := make([]*big.Int, len(arr.Vals))
		for j, v := range arr.Vals {
			out[j] = v.Hi
		}
		return out
	}
	if o.Kind == "arr" {
		return class{rd(o)}
	}
	var c class
	for _, k := range o.Kids {
		c = append(c, rd(it.St.Objs[k]))
	}
	return c
}

type magArg struct {
	key   string // class key for pointer params ("" = not a class object)
	conc  int64  // concrete integer for scalar params
	bytes int    // >0: an abstract byte slice of that length
	out   string // class key the object's final content is joined into ("" = none)
}

// fillFromLiteral writes a literal tree into an object tree of the same shape.
func fillFromLiteral(it *absint.Interp, id int, n lit.Node) bool {
	o := it.St.Objs[id]
	if o.Kind == "arr" {
		if len(n.List) != len(o.Vals) {
			if n.Int != nil && len(o.Vals) == 1 {
				o.Vals[0] = absint.Const(n.Int, o.W, o.Sg)
				return true
			}
			return false
		}
		for i, e := range n.List {
			if e.Int == nil {
				return false
			}
			o.Vals[i] = absint.Const(e.Int, o.W, o.Sg)
		}
		return true
	}
	if o.Kind == "agg" && len(n.List) == len(o.Kids) {
		ok := true
		for i, k := range o.Kids {
			if !fillFromLiteral(it, k, n.List[i]) {
				ok = false
			}
		}
		return ok
	}
	return false
}

func (d *magDriver) initGlobal(it *absint.Interp, g *ssa.Global, obj int) bool {
	for _, pkg := range d.p.Pkgs {
		if pkg.Types == g.Pkg.Pkg {
			if len(it.St.Objs[obj].Kids) > 64 {
				return false // large tables stay abstract
			}
			n, err := lit.Var(pkg, g.Name())
			if err != nil {
				return false
			}
			return fillFromLiteral(it, obj, n)
		}
	}
	return false
}

func (d *magDriver) hooks() absint.Hooks {
	return absint.Hooks{Modular: modularFuncs, MaxForks: 64, Polys: d.weights != nil, InitGlobal: d.initGlobal, Summary: func(it *absint.Interp, f *ssa.Function, args []absint.AnyVal, call ssa.Instruction) (absint.AnyVal, bool) {
		// leaf field operations depend only on the magnitudes of their operands: summarise and reuse
		if ssau.PkgSuffix(f) == "internal/curve25519" && f.Parent() == nil && f.Signature.Recv() == nil && f.Name() != "Contract" && f.Name() != "Expand" {
			if res, ok := d.cached(it, f, args); ok {
				return res, true
			}
		}
		switch ssau.CanonName(f) {
		case "scalarmultBaseChooseNiels":
			// the selector's output is a table entry, possibly swapped/negated: the niels class
			if pv, ok := args[0].(absint.PtrV); ok {
				d.writeClass(it, pv.Obj, d.classes["niels"])
			}
			return nil, true
		case "ContractWindow4", "ContractSlidingWindow", "ExpandRaw":
			return nil, true
		}
		switch f.String() {
		case "crypto/subtle.ConstantTimeCompare":
			return absint.Range(big.NewInt(0), big.NewInt(1), 64, true), true
		case "bytes.Equal":
			return absint.Top(1, false), true
		}
		return nil, false
	}}
}

// cached evaluates a leaf field function through a summary cache keyed by the operand magnitudes.
func (d *magDriver) cached(it *absint.Interp, f *ssa.Function, args []absint.AnyVal) (absint.AnyVal, bool) {
	if d.exactActive {
		// inside the exact run of a field operation that delegates to another one: evaluate the callee in line so that
		// the polynomials flow through it
		return nil, false
	}
	var sb strings.Builder
	sb.WriteString(f.Name())
	var ptrs []int
	for _, a := range args {
		switch x := a.(type) {
		case absint.PtrV:
			o := it.St.Objs[x.Obj]
			if o.Kind != "arr" || x.Idx != -1 {
				return nil, false
			}
			sb.WriteByte('|')
			// aliasing pattern matters (Mul(&r.x, &r.x, &den)): record which earlier pointer this one equals
			alias := -1
			for k, pid := range ptrs {
				if pid == x.Obj {
					alias = k
				}
			}
			sb.WriteString(fmt.Sprintf("a%d:", alias))
			for _, v := range o.Vals {
				sb.WriteString(v.Lo.Text(16))
				sb.WriteByte('-')
				sb.WriteString(v.Hi.Text(16))
				sb.WriteByte(',')
			}
			ptrs = append(ptrs, x.Obj)
		case absint.Val:
			if !x.IsConst() {
				return nil, false
			}
			sb.WriteString("|c" + x.Lo.Text(16))
		default:
			return nil, false
		}
	}
	key := sb.String()
	if d.cache == nil {
		d.cache = map[string][][]absint.Val{}
	}
	if outs, ok := d.cache[key]; ok {
		d.hits++
		for k, pid := range ptrs {
			o := it.St.Objs[pid]
			for j := range o.Vals {
				v := outs[k][j]
				v.Sym = absint.FreshSym("t", v.W)
				o.Vals[j] = v
			}
		}
		return nil, true
	}
	d.squareInduction(it, f, args)
	er := d.exactPre(it, f, args, ptrs)
	d.exactActive = er != nil
	it.Call(f, args, nil)
	d.exactActive = false
	if it.Err != nil {
		return nil, true
	}
	d.exactPost(it, f, er, key)
	var outs [][]absint.Val
	for _, pid := range ptrs {
		o := it.St.Objs[pid]
		cp := make([]absint.Val, len(o.Vals))
		for j, v := range o.Vals {
			cp[j] = absint.Range(v.Lo, v.Hi, v.W, v.Signed)
		}
		outs = append(outs, cp)
	}
	d.cache[key] = outs
	return nil, true
}

func (d *magDriver) writeClass(it *absint.Interp, id int, c class) {
	if c == nil {
		return
	}
	o := it.St.Objs[id]
	for i, k := range o.Kids {
		arr := it.St.Objs[k]
		for j := range arr.Vals {
			v := absint.Range(new(big.Int), c[i][j], arr.W, false)
			v.Sym = absint.FreshSym(fmt.Sprintf("sel.%d[%d]#%d.%d", i, j, d.runs, d.steps), arr.W)
			d.steps++
			arr.Vals[j] = v
		}
	}
}

// job runs fn once; returns false if an input class is still bottom.
func (d *magDriver) job(fn *ssa.Function, label string, args []magArg, record bool) bool {
	for _, a := range args {
		if a.key != "" && a.out != a.key && d.classes[a.key].bottom() {
			return false
		}
	}
	d.runs++
	it := absint.NewInterp(d.hooks())
	var avs []absint.AnyVal
	var ids []int
	for i, a := range args {
		pt := fn.Params[i].Type()
		switch {
		case a.key != "" || a.out != "":
			el := pt.Underlying().(*types.Pointer).Elem()
			id := d.allocClass(it, fmt.Sprintf("%s.arg%d", label, i), el, d.classes[a.key])
			avs = append(avs, absint.PtrV{Obj: id, Idx: -1})
			ids = append(ids, id)
		case a.bytes > 0:
			s := symBytes(it, "bytes", a.bytes, func(int) absint.Bit { return absint.BTop })
			if _, isPtr := pt.Underlying().(*types.Pointer); isPtr {
				avs = append(avs, absint.PtrV{Obj: s.Obj, Idx: -1})
			} else {
				avs = append(avs, s)
			}
			ids = append(ids, -1)
		default:
			w, sg := 64, true
			if b, ok := pt.Underlying().(*types.Basic); ok {
				switch b.Kind() {
				case types.Uint8:
					w, sg = 8, false
				case types.Int8:
					w, sg = 8, true
				case types.Uint64, types.Uint:
					w, sg = 64, false
				}
			}
			avs = append(avs, absint.ConstInt(a.conc, w, sg))
			ids = append(ids, -1)
		}
	}
	it.Call(fn, avs, nil)
	it.Finish()
	if record {
		for _, f := range it.Findings {
			if f.Kind == "narrow" && !strings.HasPrefix(ssau.PkgSuffix(f.Fn), "internal/curve25519") {
				continue
			}
			if f.Kind == "narrow" {
				// the parser extracts bit fields on purpose; which input bit lands where is decided by O-bit-origin
				top := f.Fn
				for top.Parent() != nil {
					top = top.Parent()
				}
				if top.Name() == "Expand" {
					continue
				}
			}
			key := fmt.Sprintf("%s|%s|%s", f.Kind, ssau.QName(f.Fn), ssau.InstrPos(d.p, f.Instr))
			d.findings[key] = fmt.Sprintf("%s in %s [%s, via %s]: %s", f.Kind, ssau.QName(f.Fn), label, strings.Join(f.Stack, ">"), f.Msg)
			d.pos[key] = ssau.InstrPos(d.p, f.Instr)
		}
		if it.Err != nil {
			key := "error|" + label
			d.findings[key] = "analysis of " + label + " did not complete: " + it.Err.Error()
			d.pos[key] = ssau.Pos(d.p, fn.Pos())
		}
	}
	changed := false
	for i, a := range args {
		if a.out != "" && ids[i] >= 0 && it.Err == nil {
			nc, ch := joinClass(d.classes[a.out], d.readClass(it, ids[i]))
			d.classes[a.out] = nc
			changed = changed || ch
		}
	}
	return changed
}

// ruleMagnitudesField (R): magnitude fixpoint of the group law over the field package on this configuration's layout.
func ruleMagnitudesField(r *rep.Report, p *load.Program) {
	cfg := p.Cfg.Name
	weights, widths, w := fieldLayout(p)
	_ = weights
	d := &magDriver{p: p, r: r, nLimbs: len(widths), w: w, classes: map[string]class{}, findings: map[string]string{}, pos: map[string]string{},
		weights: weights, exact: map[string]string{}, exactPos: map[string]*ssa.Function{}, exactOK: map[string]int{}}
	d.asmSel = ssau.Func(p, "internal/ge25519", "scalarmultBaseChooseNielsAMD64") != nil
	reduced := make([]*big.Int, len(widths))
	for i := range reduced {
		reduced[i] = pow2m1(widths[i])
	}
	// seed classes: reduced coordinates (decoded points, base point, table entries); niels t2d may be an unreduced negation (<= 2p limbs)
	neg := make([]*big.Int, len(widths))
	cpkg := p.Pkg("internal/curve25519")
	for i := range neg {
		name := "twoP1234"
		if len(widths) == 10 {
			name = "twoP13579"
			if i%2 == 0 {
				name = "twoP2468"
			}
		}
		if i == 0 {
			name = "twoP0"
		}
		v, ok := lit.ConstInt(cpkg, name)
		if !ok {
			v = reduced[i]
		}
		neg[i] = v
		if reduced[i].Cmp(v) > 0 {
			neg[i] = reduced[i]
		}
	}
	d.classes["Ge"] = class{reduced, reduced, reduced, reduced}
	d.classes["niels"] = class{reduced, reduced, neg}
	r.Assume("table entries and decoded inputs have reduced limbs; the selected niels entry's t2d is bounded by the 2p bias limbs (unreduced negation of the assembly selector, engine Z; the reference selector's Neg output is below that)")
	g := func(name string) *ssa.Function { return ssau.Func(p, "internal/ge25519", name) }
	type jb struct {
		fn    *ssa.Function
		label string
		args  []magArg
	}
	var jobs []jb
	add := func(name, label string, args ...magArg) {
		if fn := g(name); fn != nil {
			jobs = append(jobs, jb{fn, label, args})
		} else {
			d.findings["missing|"+name] = "function " + name + " not found"
		}
	}
	in := func(k string) magArg { return magArg{key: k} }
	out := func(k string) magArg { return magArg{out: k} }
	inout := func(k string) magArg { return magArg{key: k, out: k} }
	producers := []string{"add", "dbl", "nadd0", "nadd1", "padd0", "padd1", "sub"}
	add("addP1p1", "addP1p1", out("p1p1:add"), in("Ge"), in("Ge"))
	add("doubleP1p1", "doubleP1p1", out("p1p1:dbl"), in("Ge"))
	add("nielsAdd2P1p1Vartime", "nielsAdd2P1p1Vartime/0", out("p1p1:nadd0"), in("Ge"), in("niels"), magArg{conc: 0})
	add("nielsAdd2P1p1Vartime", "nielsAdd2P1p1Vartime/1", out("p1p1:nadd1"), in("Ge"), in("niels"), magArg{conc: 1})
	add("pnielsAddP1P1Vartime", "pnielsAddP1P1Vartime/0", out("p1p1:padd0"), in("Ge"), in("pniels"), magArg{conc: 0})
	add("pnielsAddP1P1Vartime", "pnielsAddP1P1Vartime/1", out("p1p1:padd1"), in("Ge"), in("pniels"), magArg{conc: 1})
	add("geSub", "geSub", out("p1p1:sub"), in("Ge"), in("pniels"))
	for _, k := range producers {
		add("p1p1ToFull", "p1p1ToFull<"+k, out("Ge"), in("p1p1:"+k))
		add("p1p1ToPartial", "p1p1ToPartial<"+k, inout("Ge"), in("p1p1:"+k))
	}
	add("fullToPniels", "fullToPniels", out("pniels"), in("Ge"))
	add("nielsAdd2", "nielsAdd2", inout("Ge"), in("niels"))
	add("pnielsAdd", "pnielsAdd", out("pniels"), in("Ge"), in("pniels"))
	add("ProjectiveToExtended", "ProjectiveToExtended", out("Ge"), in("Ge"))
	add("Double", "Double", out("Ge"), in("Ge"))
	add("Add", "Add", out("Ge"), in("Ge"), in("Ge"))
	add("CofactorMultiply", "CofactorMultiply", out("Ge"), in("Ge"))
	add("CofactorEqual", "CofactorEqual", in("Ge"), in("Ge"))
	add("IsNeutralVartime", "IsNeutralVartime", in("Ge"))
	add("UnpackNegativeVartime", "UnpackNegativeVartime", out("Ge"), magArg{bytes: 32})
	add("Pack", "Pack", magArg{bytes: 32}, in("Ge"))
	add("ScalarmultBaseNiels", "ScalarmultBaseNiels", out("Ge"), magArg{bytes: 96}, magArg{bytes: 64})
	if fn := ssau.Func(p, "extra/x25519", "ScalarBaseMult"); fn != nil {
		jobs = append(jobs, jb{fn, "x25519.ScalarBaseMult", []magArg{{bytes: 32}, {bytes: 32}}})
	}
	if fn := ssau.Func(p, "extra/x25519", "EdPublicKeyToX25519"); fn != nil {
		jobs = append(jobs, jb{fn, "x25519.EdPublicKeyToX25519", []magArg{{bytes: 32}}})
	}
	// fixpoint
	sweeps := 0
	for ; sweeps < 10; sweeps++ {
		changed := false
		// findings accumulate over the sweeps: classes only grow, so a hazard at a smaller class is a hazard at the fixpoint
		for _, j := range jobs {
			if d.job(j.fn, j.label, j.args, true) {
				changed = true
			}
		}
		if !changed {
			break
		}
	}
	stable := sweeps < 10
	var keys []string
	for k := range d.classes {
		keys = append(keys, k)
	}
	sort.Strings(keys)
	var cl []string
	for _, k := range keys {
		cl = append(cl, k+"="+d.classes[k].String())
	}
	r.Extra["magnitude_classes_"+cfg] = cl
	r.Count("magnitude-runs", d.runs)
	r.Check(stable, "R-magnitude", cfg, "the magnitude classes of the group law reach a fixpoint", "", fmt.Sprintf("stable after %d sweeps over %d jobs: %s", sweeps+1, len(jobs), strings.Join(cl, " ")), "no fixpoint after 10 sweeps")
	var fk []string
	for k := range d.findings {
		fk = append(fk, k)
	}
	sort.Strings(fk)
	for i, k := range fk {
		if i >= 8 {
			break
		}
		r.Fail("R-magnitude", cfg, "field arithmetic under every magnitude the group law can produce: no overflow, borrow, lossy narrowing or lost carry", d.pos[k], "mag:"+k, d.findings[k])
	}
	d.reportExact()
	if len(fk) == 0 && stable {
		r.OK("R-magnitude", cfg, "field arithmetic under every magnitude the group law can produce: no overflow, borrow, lossy narrowing or lost carry",
			fmt.Sprintf("%d abstract runs of %d group-law / field users; classes %s", d.runs, len(jobs), strings.Join(cl, " ")))
	}
}
