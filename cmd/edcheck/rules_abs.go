package main

import (
	"fmt"
	"go/types"
	"math/big"
	"strings"

	"golang.org/x/tools/go/ssa"

	"verif/internal/absint"
	"verif/internal/lit"
	"verif/internal/load"
	"verif/internal/rep"
	"verif/internal/ssau"
)

// ---- helpers to build abstract inputs ---------------------------------------------------------

// symBytes makes an n-byte array whose bit k of byte j is the input bit id(8j+k).
func symBytes(it *absint.Interp, name string, n int, id func(pos int) absint.Bit) absint.SliceV {
	o := &absint.Object{Name: name, Kind: "arr", W: 8}
	for j := 0; j < n; j++ {
		v := absint.Val{W: 8, Lo: new(big.Int), Hi: big.NewInt(255)}
		v.Bits = make([]absint.Bit, 8)
		for k := 0; k < 8; k++ {
			v.Bits[k] = id(8*j + k)
		}
		v.Sym = absint.FreshSym(fmt.Sprintf("%s[%d]", name, j), 8)
		o.Vals = append(o.Vals, v)
	}
	it.St.Objs = append(it.St.Objs, o)
	return absint.SliceV{Obj: len(it.St.Objs) - 1, Off: 0, Len: n}
}

// symLimbs makes a limb array: limb i carries value bits [weights[i], weights[i]+widths[i]) as input bits, higher bits zero.
func symLimbs(it *absint.Interp, name string, w int, weights, widths []int) absint.PtrV {
	return symLimbsAt(it, name, w, weights, widths, 0)
}

// symLimbsAt is symLimbs with the input-bit identities shifted by base (distinct inputs need distinct identities).
func symLimbsAt(it *absint.Interp, name string, w int, weights, widths []int, base int) absint.PtrV {
	o := &absint.Object{Name: name, Kind: "arr", W: w}
	for i := range weights {
		v := absint.Val{W: w, Lo: new(big.Int)}
		v.Bits = make([]absint.Bit, w)
		for b := 0; b < w; b++ {
			if b < widths[i] {
				v.Bits[b] = posBit(base + weights[i] + b)
			}
		}
		v.Hi = new(big.Int).Sub(new(big.Int).Lsh(big.NewInt(1), uint(widths[i])), big.NewInt(1))
		v.Sym = absint.FreshSym(fmt.Sprintf("%s[%d]", name, i), w)
		o.Vals = append(o.Vals, v)
	}
	it.St.Objs = append(it.St.Objs, o)
	return absint.PtrV{Obj: len(it.St.Objs) - 1, Idx: -1}
}

func posBit(pos int) absint.Bit { return absint.Bit(pos + 2) }

func outArr(it *absint.Interp, name string, n, w int, signed bool) (absint.PtrV, int) {
	o := &absint.Object{Name: name, Kind: "arr", W: w, Sg: signed}
	for i := 0; i < n; i++ {
		o.Vals = append(o.Vals, absint.ConstInt(0, w, signed))
	}
	it.St.Objs = append(it.St.Objs, o)
	return absint.PtrV{Obj: len(it.St.Objs) - 1, Idx: -1}, len(it.St.Objs) - 1
}

func modmLayout(p *load.Program) (bpl, n, w int) {
	mpkg := p.Pkg("internal/modm")
	a, _ := lit.ConstInt(mpkg, "BitsPerLimb")
	b, _ := lit.ConstInt(mpkg, "LimbSize")
	if a == nil || b == nil {
		return 0, 0, 0
	}
	w = 64
	if a.Int64() <= 32 {
		w = 32
	}
	return int(a.Int64()), int(b.Int64()), w
}

func describeBits(v absint.Val) string {
	var sb strings.Builder
	for i := 0; i < v.W; i++ {
		b := absint.Bit(-1)
		if v.Bits != nil && i < len(v.Bits) {
			b = v.Bits[i]
		}
		switch {
		case b == 0:
			sb.WriteByte('0')
		case b == 1:
			sb.WriteByte('1')
		case b < 0:
			sb.WriteByte('?')
		default:
			sb.WriteString(fmt.Sprintf("<%d>", int(b)-2))
		}
	}
	return sb.String()
}

// checkLimbBits verifies that limb i has exactly the input bits [weights[i], weights[i]+widths[i]) (limited to total) and zeros above.
func checkLimbBits(vals []absint.Val, weights, widths []int, total int) (bad []string) {
	for i, v := range vals {
		for b := 0; b < v.W; b++ {
			want := absint.Bit(0)
			if b < widths[i] && weights[i]+b < total {
				want = posBit(weights[i] + b)
			}
			got := absint.Bit(-1)
			if v.Bits != nil {
				got = v.Bits[b]
			}
			if got != want {
				bad = append(bad, fmt.Sprintf("limb %d bit %d: have %s, want %s", i, b, bitName(got), bitName(want)))
				break
			}
		}
	}
	return
}

func bitName(b absint.Bit) string {
	switch {
	case b == 0:
		return "0"
	case b == 1:
		return "1"
	case b < 0:
		return "unknown"
	}
	return fmt.Sprintf("input bit %d", int(b)-2)
}

func fieldLayout(p *load.Program) (weights, widths []int, w int) {
	if fieldLimbs(p) == 5 {
		return []int{0, 51, 102, 153, 204}, []int{51, 51, 51, 51, 51}, 64
	}
	return []int{0, 26, 51, 77, 102, 128, 153, 179, 204, 230}, []int{26, 25, 26, 25, 26, 25, 26, 25, 26, 25}, 32
}

func modularFuncs(fn *ssa.Function) bool {
	switch ssau.CanonName(fn) {
	case "reduce", "ltModM", "SubVartime", "LessThanVartime", "LessThanOrEqualVartime", "SwapConditional", "windowbEqual",
		"scalarmultBaseChooseNiels", "moveConditionalBytes", "moveConditionalBytes64", "moveConditionalBytes32":
		return true
	}
	return false
}

// ruleBitOrigin (O): (de)serialisers are exact bit permutations; digit extraction covers every scalar bit exactly once.
func ruleBitOrigin(r *rep.Report, p *load.Program, which string) {
	cfg := p.Cfg.Name
	if which == "modm" {
		bpl, n, w := modmLayout(p)
		if n == 0 {
			return
		}
		weights, widths := make([]int, n), make([]int, n)
		for i := range weights {
			weights[i] = i * bpl
			widths[i] = bpl
		}
		// ExpandRaw: 32 bytes -> limbs
		if fn := ssau.Func(p, "internal/modm", "ExpandRaw"); fn != nil {
			it := absint.NewInterp(absint.Hooks{Modular: modularFuncs})
			out, oid := outArr(it, "out", n, w, false)
			in := symBytes(it, "in", 32, posBit)
			it.Call(fn, []absint.AnyVal{out, in}, nil)
			bad := checkLimbBits(it.St.Objs[oid].Vals, weights, widths, 256)
			if it.Err != nil {
				bad = append(bad, it.Err.Error())
			}
			r.Check(len(bad) == 0, "O-bit-origin", cfg, "modm.ExpandRaw: limb i holds exactly bits [i*BitsPerLimb, (i+1)*BitsPerLimb) of the 256-bit input", ssau.Pos(p, fn.Pos()),
				fmt.Sprintf("%d limbs x %d bits verified bit by bit", n, bpl), strings.Join(bad, "; "))
		}
		// Expand on a 16-byte randomiser: no reduction, exact bits
		if fn := ssau.Func(p, "internal/modm", "Expand"); fn != nil {
			for _, ln := range []int{16, 32, 64} {
				called := false
				var q1v, r1v []absint.Val
				it := absint.NewInterp(absint.Hooks{Modular: modularFuncs, Summary: func(it *absint.Interp, f *ssa.Function, args []absint.AnyVal, call ssa.Instruction) (absint.AnyVal, bool) {
					if f.Name() == "barrettReduce" {
						called = true
						if len(args) == 3 {
							if q, ok := args[1].(absint.PtrV); ok {
								q1v = append([]absint.Val{}, it.St.Objs[q.Obj].Vals...)
							}
							if q, ok := args[2].(absint.PtrV); ok {
								r1v = append([]absint.Val{}, it.St.Objs[q.Obj].Vals...)
							}
						}
						return nil, true
					}
					return nil, false
				}})
				out, oid := outArr(it, "out", n, w, false)
				in := symBytes(it, "in", ln, posBit)
				it.Call(fn, []absint.AnyVal{out, in}, nil)
				if it.Err != nil {
					r.Fail("P-expand-lengths", cfg, fmt.Sprintf("modm.Expand on %d bytes is analysable", ln), ssau.Pos(p, fn.Pos()), fmt.Sprintf("expand:err:%d", ln), it.Err.Error())
					continue
				}
				if ln < 32 {
					bad := checkLimbBits(it.St.Objs[oid].Vals, weights, widths, 8*ln)
					r.Check(!called && len(bad) == 0, "P-expand-lengths", cfg, fmt.Sprintf("modm.Expand on %d bytes: exact bits, no reduction needed", ln), ssau.Pos(p, fn.Pos()),
						"limbs hold the input bits exactly", fmt.Sprintf("reduced=%v %s", called, strings.Join(bad, "; ")))
				} else {
					r.Check(called, "P-expand-lengths", cfg, fmt.Sprintf("modm.Expand on %d bytes reduces modulo L (only inputs shorter than 32 bytes may skip the Barrett reduction)", ln), ssau.Pos(p, fn.Pos()),
						"barrettReduce is reached", fmt.Sprintf("a %d-byte input is returned without reduction modulo L", ln))
					if called {
						// the reduction's operands: r1 = x mod 2^264 and q1 = x >> 248, bit for bit
						rw := append([]int{}, widths...)
						rw[n-1] = 264 - bpl*(n-1)
						qwt := make([]int, n)
						for i := range qwt {
							qwt[i] = 248 + i*bpl
						}
						var bad []string
						if len(r1v) != n || len(q1v) != n {
							bad = append(bad, "operands of the reduction are not limb arrays")
						} else {
							for _, m := range checkLimbBits(r1v, weights, rw, 8*ln) {
								bad = append(bad, "r1 "+m)
							}
							for _, m := range checkLimbBits(q1v, qwt, widths, 8*ln) {
								bad = append(bad, "q1 "+m)
							}
						}
						if len(bad) > 4 {
							bad = bad[:4]
						}
						r.Check(len(bad) == 0, "O-bit-origin", cfg, fmt.Sprintf("modm.Expand on %d bytes: the Barrett operands are r1 = x mod 2^264 and q1 = x >> 248, bit for bit", ln), ssau.Pos(p, fn.Pos()),
							fmt.Sprintf("2 x %d limbs verified bit by bit", n), strings.Join(bad, "; "))
					}
				}
			}
		}
		// Contract: limbs -> 32 bytes
		if fn := ssau.Func(p, "internal/modm", "Contract"); fn != nil {
			it := absint.NewInterp(absint.Hooks{Modular: modularFuncs})
			tw := append([]int{}, widths...)
			tw[n-1] = 256 - bpl*(n-1)
			in := symLimbs(it, "in", w, weights, tw)
			out, oid := outArr(it, "out", 32, 8, false)
			it.Call(fn, []absint.AnyVal{absint.SliceV{Obj: oid, Off: 0, Len: 32}, in}, nil)
			_ = out
			var bad []string
			for j, v := range it.St.Objs[oid].Vals {
				for k := 0; k < 8; k++ {
					if v.Bits == nil || v.Bits[k] != posBit(8*j+k) {
						got := absint.Bit(-1)
						if v.Bits != nil {
							got = v.Bits[k]
						}
						bad = append(bad, fmt.Sprintf("byte %d bit %d: have %s", j, k, bitName(got)))
						break
					}
				}
			}
			if it.Err != nil {
				bad = append(bad, it.Err.Error())
			}
			if len(bad) > 4 {
				bad = bad[:4]
			}
			r.Check(len(bad) == 0, "O-bit-origin", cfg, "modm.Contract: output byte j holds exactly bits [8j, 8j+8) of the reduced scalar (inverse of ExpandRaw)", ssau.Pos(p, fn.Pos()),
				"256 output bits verified", strings.Join(bad, "; "))
		}
		// digit extraction of the two recodings: every digit slot receives exactly its bits
		for _, c := range []struct {
			name  string
			slots int
			per   int
		}{{"ContractWindow4", 64, 4}, {"ContractSlidingWindow", 256, 1}} {
			fn := ssau.Func(p, "internal/modm", c.name)
			if fn == nil {
				continue
			}
			first := map[int]absint.Val{}
			var rid int
			it := absint.NewInterp(absint.Hooks{Modular: func(*ssa.Function) bool { return true }, OnStore: func(in ssa.Instruction, obj, idx int, v absint.Val) {
				if obj == rid {
					if _, ok := first[idx]; !ok {
						first[idx] = v
					}
				}
			}})
			tw := append([]int{}, widths...)
			tw[n-1] = 256 - bpl*(n-1)
			in := symLimbs(it, "in", w, weights, tw)
			var out absint.PtrV
			out, rid = outArr(it, "r", c.slots, 8, true)
			args := []absint.AnyVal{out, in}
			if c.name == "ContractSlidingWindow" {
				args = append(args, absint.ConstInt(5, 64, false))
			}
			it.Call(fn, args, nil)
			// an undecided branch in the (data-dependent) second phase is expected; the first phase must be complete by then
			var bad []string
			for q := 0; q < c.slots && len(bad) < 4; q++ {
				v, ok := first[q]
				if !ok {
					bad = append(bad, fmt.Sprintf("digit slot %d is never loaded from the scalar", q))
					continue
				}
				for b := 0; b < 8; b++ {
					want := absint.Bit(0)
					if b < c.per && c.per*q+b < 256 {
						want = posBit(c.per*q + b)
					}
					got := absint.Bit(-1)
					if v.Bits != nil {
						got = v.Bits[b]
					}
					if got != want {
						bad = append(bad, fmt.Sprintf("slot %d bit %d: have %s, want %s", q, b, bitName(got), bitName(want)))
						break
					}
				}
			}
			r.Check(len(bad) == 0, "O-bit-origin", cfg, fmt.Sprintf("modm.%s: digit slot q is first loaded with exactly bits [%d q, %d q + %d) of the scalar, for all %d slots", c.name, c.per, c.per, c.per, c.slots), ssau.Pos(p, fn.Pos()),
				fmt.Sprintf("%d slots verified (all 256 scalar bits consumed exactly once)", c.slots), strings.Join(bad, "; "))
		}
	}
	if which == "curve25519" {
		weights, widths, w := fieldLayout(p)
		if fn := ssau.Func(p, "internal/curve25519", "Expand"); fn != nil {
			it := absint.NewInterp(absint.Hooks{Modular: modularFuncs})
			out, oid := outArr(it, "out", len(weights), w, false)
			in := symBytes(it, "in", 32, posBit)
			it.Call(fn, []absint.AnyVal{out, in}, nil)
			bad := checkLimbBits(it.St.Objs[oid].Vals, weights, widths, 255)
			if it.Err != nil {
				bad = append(bad, it.Err.Error())
			}
			r.Check(len(bad) == 0, "O-bit-origin", cfg, "curve25519.Expand: limb i holds exactly its slice of input bits 0..254; bit 255 is ignored", ssau.Pos(p, fn.Pos()),
				fmt.Sprintf("%d limbs verified bit by bit; input bit 255 reaches no output bit", len(weights)), strings.Join(bad, "; "))
		}
	}
}

type stopErr struct{}

func (stopErr) Error() string { return "stopped by the rule" }

// ruleSelector (E): the table selector, evaluated over its complete finite domain (32 positions x 17 digits) with the
// field data abstract: it scans rows 8*pos..8*pos+7, selects row |b|-1 and swaps/negates iff b < 0.
func ruleSelector(r *rep.Report, p *load.Program) {
	cfg := p.Cfg.Name
	fn := ssau.Func(p, "internal/ge25519", "scalarmultBaseChooseNiels")
	if fn == nil {
		r.Fail("E-selector", cfg, "scalarmultBaseChooseNiels exists", "", "selector:missing", "selector not found")
		return
	}
	asm := ssau.Func(p, "internal/ge25519", "scalarmultBaseChooseNielsAMD64") != nil
	cases, bad := 0, []string{}
	for pos := 0; pos < 32; pos++ {
		for b := -8; b <= 8; b++ {
			cases++
			type mv struct {
				row  int
				flag int64
			}
			var moves []mv
			var swaps []int64
			var asmCall []int64
			rowOf := map[int]int{}
			it := absint.NewInterp(absint.Hooks{Modular: func(*ssa.Function) bool { return true }, Summary: func(it *absint.Interp, f *ssa.Function, args []absint.AnyVal, call ssa.Instruction) (absint.AnyVal, bool) {
				switch ssau.CanonName(f) {
				case "moveConditionalBytes":
					row := -1
					if pv, ok := args[1].(absint.PtrV); ok {
						if rr, ok := rowOf[pv.Obj]; ok {
							row = rr
						}
					}
					fl := int64(-1)
					if v, ok := args[2].(absint.Val); ok && v.IsConst() {
						fl = v.Int64()
					}
					moves = append(moves, mv{row, fl})
					return nil, true
				case "SwapConditional":
					fl := int64(-1)
					if v, ok := args[2].(absint.Val); ok && v.IsConst() {
						fl = v.Int64()
					}
					swaps = append(swaps, fl)
					return nil, true
				case "scalarmultBaseChooseNielsAMD64":
					u, sg, row := int64(-1), int64(-1), -1
					if v, ok := args[0].(absint.Val); ok && v.IsConst() {
						u = v.Int64()
					}
					if v, ok := args[3].(absint.Val); ok && v.IsConst() {
						sg = v.Int64()
					}
					if pv, ok := args[1].(absint.PtrV); ok && pv.Idx == 0 {
						if rr, ok := rowOf[pv.Obj]; ok {
							row = rr
						}
					}
					asmCall = []int64{u, int64(row), sg}
					return nil, true
				}
				return nil, false
			}})
			// objects: t, table
			tObj := it.St.Alloc("t", fn.Params[0].Type().Underlying().(interface{ Elem() typesType }).Elem(), true)
			// the table: 256 rows of 96 unknown bytes (values are immutable, so one abstract byte is shared)
			topByte := absint.Top(8, false)
			tbl := &absint.Object{Name: "table", Kind: "agg"}
			for i := 0; i < 256; i++ {
				row := &absint.Object{Name: fmt.Sprintf("table[%d]", i), Kind: "arr", W: 8, Vals: make([]absint.Val, 96)}
				for j := range row.Vals {
					row.Vals[j] = topByte
				}
				it.St.Objs = append(it.St.Objs, row)
				tbl.Kids = append(tbl.Kids, len(it.St.Objs)-1)
				rowOf[len(it.St.Objs)-1] = i
			}
			it.St.Objs = append(it.St.Objs, tbl)
			tblObj := len(it.St.Objs) - 1
			it.Call(fn, []absint.AnyVal{absint.PtrV{Obj: tObj, Idx: -1}, absint.PtrV{Obj: tblObj, Idx: -1}, absint.ConstInt(int64(pos), 64, true), absint.ConstInt(int64(b), 8, true)}, nil)
			if it.Err != nil {
				bad = append(bad, fmt.Sprintf("pos=%d b=%d: %v", pos, b, it.Err))
				continue
			}
			abs := b
			if abs < 0 {
				abs = -abs
			}
			neg := int64(0)
			if b < 0 {
				neg = 1
			}
			if asm {
				if len(asmCall) != 3 || asmCall[0] != int64(abs) || asmCall[1] != int64(pos*8) || asmCall[2] != neg {
					bad = append(bad, fmt.Sprintf("pos=%d b=%d: assembly routine called with (u,row,sign)=%v, want (%d,%d,%d)", pos, b, asmCall, abs, pos*8, neg))
				}
				continue
			}
			seen := map[int]int64{}
			okc := len(moves) == 8
			for _, m := range moves {
				if _, dup := seen[m.row]; dup {
					okc = false
				}
				seen[m.row] = m.flag
			}
			for i := 0; i < 8; i++ {
				want := int64(0)
				if abs == i+1 {
					want = 1
				}
				if fl, ok := seen[pos*8+i]; !ok || fl != want {
					okc = false
				}
			}
			if !okc {
				bad = append(bad, fmt.Sprintf("pos=%d b=%d: conditional moves (row,flag)=%v, want rows %d..%d with flag 1 exactly at |b|-1", pos, b, moves, pos*8, pos*8+7))
			}
			if len(swaps) != 2 || swaps[0] != neg || swaps[1] != neg {
				bad = append(bad, fmt.Sprintf("pos=%d b=%d: conditional swap flags %v, want [%d %d]", pos, b, swaps, neg, neg))
			}
		}
	}
	if len(bad) > 3 {
		bad = append(bad[:3], fmt.Sprintf("... %d more", len(bad)-3))
	}
	r.Count("selector-cases", cases)
	r.Check(len(bad) == 0, "E-selector", cfg, "table selector on all 32 x 17 (position, digit) cases: scans the 8 rows of the position, selects row |b|-1, swaps and negates iff b < 0", ssau.Pos(p, fn.Pos()),
		fmt.Sprintf("%d cases evaluated with concrete digit/position and abstract field data (assembly variant: %v)", cases, asm), strings.Join(bad, "; "))
}

// ruleSwap (E): SwapConditional is exactly a swap (iswap = 1) or a no-op (iswap = 0), limb by limb, by value numbering.
func ruleSwap(r *rep.Report, p *load.Program) {
	cfg := p.Cfg.Name
	fn := ssau.Func(p, "internal/curve25519", "SwapConditional")
	if fn == nil {
		return
	}
	weights, _, w := fieldLayout(p)
	full := make([]int, len(weights))
	for i := range full {
		full[i] = w // every bit of the limb may be set (unreduced operands)
	}
	var bad []string
	for _, sw := range []int64{0, 1} {
		it := absint.NewInterp(absint.Hooks{Modular: func(*ssa.Function) bool { return true }})
		a := symLimbsAt(it, "a", w, weights, full, 0)
		b := symLimbsAt(it, "b", w, weights, full, 4096)
		a0 := append([]absint.Val{}, it.St.Objs[a.Obj].Vals...)
		b0 := append([]absint.Val{}, it.St.Objs[b.Obj].Vals...)
		it.Call(fn, []absint.AnyVal{a, b, absint.ConstInt(sw, 64, false)}, nil)
		if it.Err != nil {
			bad = append(bad, it.Err.Error())
			continue
		}
		for i := range a0 {
			wa, wb := a0[i], b0[i]
			if sw == 1 {
				wa, wb = b0[i], a0[i]
			}
			ga, gb := it.St.Objs[a.Obj].Vals[i], it.St.Objs[b.Obj].Vals[i]
			if ga.Sym == nil || gb.Sym == nil || ga.Sym.Key != wa.Sym.Key || gb.Sym.Key != wb.Sym.Key {
				bad = append(bad, fmt.Sprintf("iswap=%d limb %d is neither swapped nor kept", sw, i))
			}
		}
	}
	if len(bad) > 3 {
		bad = bad[:3]
	}
	r.Check(len(bad) == 0, "E-swap", cfg, "SwapConditional(a, b, s): s=1 exchanges every limb in full, s=0 changes nothing", ssau.Pos(p, fn.Pos()),
		"both flag values evaluated; every output limb is value-number-identical to the expected input limb (all bits, also above the nominal limb width)", strings.Join(bad, "; "))
}

// ruleHeapSeed (E): the Bos-Coster heap is seeded with an odd number of scalars that covers every full-size scalar.
func ruleHeapSeed(r *rep.Report, p *load.Program, msm *ssa.Function) {
	cfg := p.Cfg.Name
	if msm == nil {
		return
	}
	var bad []string
	n := 0
	for count := 9; count <= 129; count += 2 {
		n++
		got := int64(-1)
		it := absint.NewInterp(absint.Hooks{Modular: func(*ssa.Function) bool { return true }, Summary: func(it *absint.Interp, f *ssa.Function, args []absint.AnyVal, call ssa.Instruction) (absint.AnyVal, bool) {
			// the first module call handed (heap, count): heapBuild as a function or as a method on the heap
			if ssau.InModule(f) && got < 0 && len(args) == 2 && len(f.Params) == 2 && f.Params[1].Type().String() == "int" {
				if v, ok := args[1].(absint.Val); ok && v.IsConst() {
					got = v.Int64()
				} else {
					got = -2
				}
				it.Err = stopErr{}
				return nil, true
			}
			return nil, false
		}})
		rObj := it.St.Alloc("r", msm.Params[0].Type().Underlying().(interface{ Elem() typesType }).Elem(), true)
		hObj := it.St.Alloc("heap", msm.Params[1].Type().Underlying().(interface{ Elem() typesType }).Elem(), true)
		it.Call(msm, []absint.AnyVal{absint.PtrV{Obj: rObj, Idx: -1}, absint.PtrV{Obj: hObj, Idx: -1}, absint.ConstInt(int64(count), 64, true)}, nil)
		large := int64((count + 1) / 2) // scalars[0..batchSize] are full size, the rest are 128-bit randomisers
		if got < large || got > int64(count) || got%2 != 1 {
			bad = append(bad, fmt.Sprintf("count=%d: heap seeded with %d scalars, need an odd number in [%d, %d]", count, got, large, count))
		}
	}
	if len(bad) > 3 {
		bad = append(bad[:3], "...")
	}
	r.Check(len(bad) == 0, "E-heap-seed", cfg, "multi-scalar multiplication seeds the heap with an odd number of scalars covering all full-size ones, for every chunk size 4..64", ssau.Pos(p, msm.Pos()),
		fmt.Sprintf("%d counts (2n+1, n=4..64) evaluated", n), strings.Join(bad, "; "))
}

type typesType = types.Type

// rangeLimbs makes a limb array with the given per-limb upper bounds (lower bound 0).
func rangeLimbs(it *absint.Interp, name string, w int, hi []*big.Int) absint.PtrV {
	o := &absint.Object{Name: name, Kind: "arr", W: w}
	for i := range hi {
		v := absint.Range(new(big.Int), hi[i], w, false)
		v.Sym = absint.FreshSym(fmt.Sprintf("%s[%d]", name, i), w)
		o.Vals = append(o.Vals, v)
	}
	it.St.Objs = append(it.St.Objs, o)
	return absint.PtrV{Obj: len(it.St.Objs) - 1, Idx: -1}
}

func pow2m1(k int) *big.Int {
	return new(big.Int).Sub(new(big.Int).Lsh(big.NewInt(1), uint(k)), big.NewInt(1))
}

func reportFindings(r *rep.Report, p *load.Program, rule, subject string, it *absint.Interp, allow func(f absint.Finding) (string, bool)) int {
	cfg := p.Cfg.Name
	n := 0
	it.Finish()
	for _, f := range it.Findings {
		if why, ok := allow(f); ok {
			r.Assume(why)
			continue
		}
		n++
		r.Fail(rule, cfg, subject, ssau.InstrPos(p, f.Instr), fmt.Sprintf("%s:%s:%s", rule, f.Kind, ssau.QName(f.Fn)), fmt.Sprintf("%s in %s [%s]: %s", f.Kind, ssau.QName(f.Fn), strings.Join(f.Stack, ">"), f.Msg))
	}
	if it.Err != nil {
		n++
		r.Fail(rule, cfg, subject, "", rule+":error:"+subject, "analysis did not complete: "+it.Err.Error())
	}
	return n
}

// deadValues lists integer values computed in fn (and executed) that nothing consumes and that may be non-zero.
func deadValues(it *absint.Interp, fn *ssa.Function) []ssa.Value {
	var out []ssa.Value
	for _, b := range fn.Blocks {
		for _, in := range b.Instrs {
			v, ok := in.(ssa.Value)
			if !ok || !it.InstrsSeen[in] {
				continue
			}
			switch in.(type) {
			case *ssa.Call, *ssa.Alloc, *ssa.Phi:
				continue
			}
			av, have := it.ValOf[v]
			if !have {
				continue
			}
			used := false
			if refs := v.Referrers(); refs != nil {
				for _, u := range *refs {
					if _, dbg := u.(*ssa.DebugRef); !dbg {
						used = true
					}
				}
			}
			if !used && !(av.IsConst() && av.Lo.Sign() == 0) {
				out = append(out, v)
			}
		}
	}
	return out
}

// ruleMagnitudes (R): no overflow, borrow, lossy narrowing, lost carry or dropped non-zero value under the magnitudes that reach the code.
func ruleMagnitudes(r *rep.Report, p *load.Program, which string) {
	if which == "modm" {
		ruleMagnitudesModm(r, p)
		return
	}
	ruleMagnitudesField(r, p)
}

func ruleMagnitudesModm(r *rep.Report, p *load.Program) {
	cfg := p.Cfg.Name
	bpl, n, w := modmLayout(p)
	if n == 0 {
		return
	}
	reduced := make([]*big.Int, n)
	for i := range reduced {
		reduced[i] = pow2m1(bpl)
	}
	reduced[n-1] = pow2m1(256 - bpl*(n-1))
	noAllow := func(f absint.Finding) (string, bool) {
		if f.Kind == "narrow" {
			// narrowing conversions in the scalar package are bit-field extractions (checked bit by bit by the bit-origin rule)
			return "", false
		}
		return "", false
	}
	_ = noAllow
	type run struct {
		name string
		args func(it *absint.Interp) ([]absint.AnyVal, int)
	}
	runs := []run{
		{"Add", func(it *absint.Interp) ([]absint.AnyVal, int) {
			out, oid := outArr(it, "r", n, w, false)
			return []absint.AnyVal{out, rangeLimbs(it, "x", w, reduced), rangeLimbs(it, "y", w, reduced)}, oid
		}},
		{"Mul", func(it *absint.Interp) ([]absint.AnyVal, int) {
			out, oid := outArr(it, "r", n, w, false)
			return []absint.AnyVal{out, rangeLimbs(it, "x", w, reduced), rangeLimbs(it, "y", w, reduced)}, oid
		}},
		{"Expand", func(it *absint.Interp) ([]absint.AnyVal, int) {
			out, oid := outArr(it, "out", n, w, false)
			return []absint.AnyVal{out, symBytes(it, "in", 64, func(int) absint.Bit { return absint.BTop })}, oid
		}},
		{"Expand", func(it *absint.Interp) ([]absint.AnyVal, int) {
			out, oid := outArr(it, "out", n, w, false)
			return []absint.AnyVal{out, symBytes(it, "in", 32, func(int) absint.Bit { return absint.BTop })}, oid
		}},
	}
	for _, rn := range runs {
		fn := ssau.Func(p, "internal/modm", rn.name)
		if fn == nil {
			continue
		}
		it := absint.NewInterp(absint.Hooks{Modular: modularFuncs})
		args, oid := rn.args(it)
		it.Call(fn, args, nil)
		subj := fmt.Sprintf("modm.%s on reduced operands: no overflow, borrow, lost carry", rn.name)
		r.Assume("scalar operands are reduced: limbs below 2^BitsPerLimb and the top limb below 2^(256-BitsPerLimb*(LimbSize-1)) (the top-limb bound of results is value-relational and not re-derived)")
		bad := reportFindings(r, p, "R-magnitude", subj, it, func(f absint.Finding) (string, bool) {
			if f.Kind == "narrow" {
				return "", true // bit-field extraction; exactness of the packing is the bit-origin rule's business
			}
			return "", false
		})
		// closure: the result is again a reduced operand
		okOut := true
		var outs []string
		for i, v := range it.St.Objs[oid].Vals {
			outs = append(outs, fmt.Sprintf("2^%d", v.Hi.BitLen()))
			if i < n-1 && v.Hi.Cmp(reduced[i]) > 0 {
				okOut = false // the top limb's bound is relational (value < L) and not derivable by intervals: assumed
			}
		}
		if bad == 0 {
			r.Check(okOut, "R-magnitude", cfg, subj+"; result limbs stay within the reduced-operand bounds", ssau.Pos(p, fn.Pos()),
				"result limb bounds "+strings.Join(outs, ","), "result limb bounds "+strings.Join(outs, ",")+" exceed the reduced-operand contract")
		}
		// dropped values
		for _, name := range []string{"Mul", "Add", "barrettReduce", "reduce", "Expand"} {
			g := ssau.Func(p, "internal/modm", name)
			if g == nil {
				continue
			}
			for _, dv := range deadValues(it, g) {
				in := dv.(ssa.Instruction)
				if name == "barrettReduce" {
					r.Assume("barrettReduce computes r2 = q3*m only modulo b^(k+1) (2^264): the high half of its last partial-product accumulator is dropped on purpose (HAC 14.42)")
					continue
				}
				r.Fail("R-dropped-value", cfg, "modm."+name+": no possibly non-zero intermediate value is computed and then dropped", ssau.InstrPos(p, in), "dropped:"+name+":"+dv.Name(),
					fmt.Sprintf("%s in modm.%s is never used although it may be non-zero (up to 2^%d): a carry or high part is lost", dv.Name(), name, it.ValOf[dv].Hi.BitLen()))
			}
		}
	}
}
