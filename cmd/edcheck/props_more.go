package main

import (
	"verif/internal/mem"
	"verif/internal/rep"
)

func init() {
	register("C02", "other", checkC02)
	register("C03", "other", checkC03)
	register("C09", "other", checkC09)
	register("C10", "other", checkC10)
	register("C11", "other", checkC11)
	register("C12", "other", checkC12)
}

func checkC02(c *Ctx, r *rep.Report) {
	r.Explanation = "S+H: the signer's result is exactly R || S with R = Pack([r]B), r = ModL(SHA512([dom2] || H(seed)[32:64] || M)), S = Contract(Add(Mul(ModL(SHA512([dom2] || R || A || M)), ModL(clamp(H(seed)[0:32]))), r)) and the public key is Pack([ModL(clamp(H(seed)[0:32]))]B), as RFC 8032 5.1.5/5.1.6 compose them (clamp checked as byte truth tables); G/F: the three ways of passing options dispatch to the right variant, context partition and digest length as in C07; M4: the entropy argument has no use and the signing cone is pure."
	r.NotDecided = "byte-exactness of the arithmetic primitives (ModL, fixed-base multiplication, Pack, scalar Mul/Add) — C16, C18, C19"
	p, rl := c.mustLoad(r, "amd64-default")
	if p == nil {
		return
	}
	fl := rootFlags(r, p, rl)
	if fl == nil {
		return
	}
	ruleWriteDom2(r, p, rl)
	paths := ruleSignCore(r, p, rl, fl)
	ruleSignWrappers(r, p, rl, fl)
	ruleNewKeyFromSeed(r, p, rl)
	ruleGenerateKey(r, p, rl)
	ruleUsesOnly(r, p, "H-message-only-hashed", "signCore", paths, "the message", isLeaf("P1"), map[string]bool{"hash.Write": true, "hash.Sum": true}, throughOps)
	rulePurity(c, r, "sign")
	// keys are values: accessors and constructors return fresh memory, so later use of a key cannot depend on what the
	// caller does with a returned seed / public key or with the seed buffer it passed in
	{
		an := mem.New()
		ruleFreshness(r, p, an, nil)
		ruleNoParamWrites(r, p, an)
	}
	scalarLayer(c, r)
}

func checkC03(c *Ctx, r *rep.Report) {
	r.Explanation = "H sibling agreement: signer and every verifier hash the same challenge transcript [dom2(f,c)] || R32 || A32 || M with the same dom2 rule (exact expected terms on both sides, batch via B6); S: the S half is Contract of the output of the reducing modm.Add and is not post-processed; G: no verifier has a rejection reason outside the documented list (an unlisted guard is a violation), and the one magnitude test is exactly S<L (F)."
	r.NotDecided = "that honest R and A are never of small order (group theory + C16) and the arithmetic"
	p, rl := c.mustLoad(r, "amd64-default")
	if p == nil {
		return
	}
	fl := rootFlags(r, p, rl)
	if fl == nil {
		return
	}
	ruleWriteDom2(r, p, rl)
	ruleSignCore(r, p, rl, fl)
	ruleSignWrappers(r, p, rl, fl)
	verifierRules(r, p, rl, fl)
	ruleScMinExact(r, p, rl)
	ruleSmallOrder(r, p, rl)
	ruleBatchAll(c, r, p, rl, fl)
	scalarLayer(c, r)
	// "every build configuration": signer and verifier use the expected member of each sibling-file group and the same tables
	for _, cfg := range c.Configs() {
		if q, qrl := c.mustLoad(r, cfg); q != nil {
			ruleConfigSelection(r, q)
			ruleFieldConstants(r, q)
			ruleTables(r, q)
			ruleLimbSizeArgs(r, q, qrl)
		}
	}
}

func checkC09(c *Ctx, r *rep.Report) {
	r.Explanation = "S/G: smallOrder(s) = !Unpack(s) || IsNeutral(CofactorMultiply(Unpack(s))); CofactorMultiply is exactly three doublings; IsNeutralVartime tests X==0 && Y==Z on the contracted (canonical) coordinates; the predicate is applied to the supplied 32 bytes at exactly the documented call sites (two in the verifier core, two in the batch fast path), always gated by !zip215."
	r.NotDecided = "the doubling formula's algebra and that [8]P = O characterises the eight torsion points (group theory)"
	p, rl := c.mustLoad(r, "amd64-default")
	if p == nil {
		return
	}
	fl := rootFlags(r, p, rl)
	if fl == nil {
		return
	}
	ruleSmallOrder(r, p, rl)
	ruleBatchNeutral(r, p, rl)
	ruleCofactor(r, p)
	ruleVerifyCore(r, p, rl, fl, "G-verify")
	ruleVerifyWrappers(r, p, rl, fl)
	ruleNoPanic(r, p, rl)
	ruleBatchAll(c, r, p, rl, fl)
	// the predicate is a function of its argument: no package-level scratch
	ruleGlobalWrites(r, p, mem.New())
}

func checkC10(c *Ctx, r *rep.Report) {
	r.Explanation = "G/S: the decoder has exactly one rejection (neither root check passes), takes the sign from bit 255 and compares it with the parity of the contracted x, sets y = Expand(p), z = 1, t = x*y; UnpackVartime flips bit 255 on a private copy; Pack writes Contract(y/z) with the parity of Contract(x/z) folded into bit 255 (byte truth tables); field Expand ignores bit 255 (bit-origin, engine R)."
	r.NotDecided = "that the exponentiation chain computes the square root and that Contract's output is canonical for every representation (numeric)"
	for _, cfg := range c.Configs() {
		p, _ := c.mustLoad(r, cfg)
		if p == nil {
			continue
		}
		ruleDecode(r, p)
		ruleEncode(r, p)
		ruleConversions(r, p)
		ruleBitOrigin(r, p, "curve25519")
		ruleFieldConstants(r, p) // d, 2d, sqrt(-1) and the base point as written, on this layout
		ruleOutputDefined(r, p)
	}
}

func checkC11(c *Ctx, r *rep.Report) {
	r.Explanation = "F/G: x25519 returns (nil, err) exactly for a scalar or point that is not 32 bytes or (generic path) an all-zero result; the fast path is selected by slice identity with the exported base point only; S: ScalarBaseMult = Contract((Y+Z)/(Z-Y)) of [ExpandRaw(clamp(scalar))]B over the precomputed table (ExpandRaw, not the reducing Expand); ScalarMult delegates to x/crypto."
	r.NotDecided = "agreement of the precomputed Edwards path with the Montgomery ladder on all scalars (numeric: C16, C18, C19)"
	for _, cfg := range c.Configs() {
		p, _ := c.mustLoad(r, cfg)
		if p == nil {
			continue
		}
		ruleX25519(r, p)
		ruleBitOrigin(r, p, "modm") // the fast path's radix-16 recoding must consume all 256 scalar bits
		ruleSelector(r, p)
	}
}

func checkC12(c *Ctx, r *rep.Report) {
	r.Explanation = "H+S: the private conversion is a fresh copy of clamp(SHA512(priv[0:32]))[0:32]; G+S: the public conversion fails exactly when UnpackVartime fails and otherwise returns Contract((1+y)*Recip(1-y)); the input is not written."
	r.NotDecided = "commutation of the birational map with key generation (numeric)"
	for _, cfg := range c.Configs() {
		p, _ := c.mustLoad(r, cfg)
		if p == nil {
			continue
		}
		ruleConversions(r, p)
		ruleDecode(r, p)
	}
}

func init() {
	register("C06", "other", checkC06)
	register("C17", "other", checkC17)
}

func checkC06(c *Ctx, r *rep.Report) {
	r.Explanation = "B: in the batch verifier every per-entry access (three input slices, result vector, failBatch argument) uses the entry index i+offset in every loop (B1); the scratch slot map pairs S_i, h_i and R_i with the same randomiser (B2); phases are ordered and guarded by the fast-path flag (B3); every early exit marks the entry false, sets the summary bit and forces the fallback, an out-of-range S only marks the entry (B4/B5); the per-entry guards of the fast path are exactly the single verifier's (B6); fresh 16-byte randomisers are read per chunk (B7); scratch and flag are re-initialised per chunk (B8); fallback and remainder decide entry e by the single verifier on (publicKeys[e], messages[e], sigs[e], opts); the shared hash object is clean at every iteration boundary (H); returns are (ret==0, valid, nil) or (false, nil, err)."
	r.NotDecided = "the probabilistic soundness of the random linear combination and the arithmetic of the multi-scalar multiplication (C17)"
	p, rl := c.mustLoad(r, "amd64-default")
	if p == nil {
		return
	}
	fl := rootFlags(r, p, rl)
	if fl == nil {
		return
	}
	ruleBatchAll(c, r, p, rl, fl)
	ruleNoPanic(r, p, rl)
	ruleVerifyCore(r, p, rl, fl, "G-verify")
	ruleBatchNeutral(r, p, rl)
	// "for every entropy stream": the final ladder of the multi-scalar routine must neither panic on an all-zero scalar
	// nor run on an accumulator that is not a group element
	ruleZeroScanGuard(r, p, rl)
	ruleMsmFinal(r, p, rl)
}

func checkC17(c *Ctx, r *rep.Report) {
	r.Explanation = "B2/B3/B8: the batch equation is set up over the right terms — term k pairs scalars[k] with points[k], the same randomiser multiplies S_i, h_i and R_i, the base point sits in slot 0, the count is 2n+1, summation precedes slot reuse, scratch and flag are re-initialised per chunk — and the fallback is entered iff the flag is false, which only failBatch or a failed cofactored identity test can cause."
	r.NotDecided = "exactness of the Bos-Coster heap arithmetic (data-dependent loop invariants; see DESIGN section 7)"
	p, rl := c.mustLoad(r, "amd64-default")
	if p == nil {
		return
	}
	fl := rootFlags(r, p, rl)
	if fl == nil {
		return
	}
	ruleBatchAll(c, r, p, rl, fl)
	ruleBatchNeutral(r, p, rl)
	ruleCofactor(r, p)
	ruleHeapSeed(r, p, rl.Msm)
	ruleUnrolledChains(r, p)
	ruleZeroScanGuard(r, p, rl)
	ruleMsmFinal(r, p, rl)
	// the predicates that steer the Bos-Coster loop, on both limb layouts
	for _, cfg := range c.Configs() {
		if cfg == "amd64-noasm" {
			continue
		}
		if q, qrl := c.mustLoad(r, cfg); q != nil {
			ruleVartimePredicates(r, q)
			ruleFieldConstants(r, q) // the base point in slot 0 (all four coordinates) on this layout
			ruleLimbSizeArgs(r, q, qrl)
		}
	}
}
