package main

import (
	"fmt"
	"strings"

	"golang.org/x/tools/go/ssa"

	"verif/internal/engine/g"
	"verif/internal/lit"
	"verif/internal/load"
	"verif/internal/pt"
	"verif/internal/rep"
	"verif/internal/roles"
	"verif/internal/ssau"
)

// T and L are shorthands for building specification terms.
var T = pt.T

func L(s string) *pt.Term { return pt.Leaf(s) }
func N(n int) *pt.Term    { return pt.Leaf(fmt.Sprintf("#%d", n)) }
func sub(x *pt.Term, lo, hi int) *pt.Term {
	return T("sub", x, N(lo), N(hi))
}

// flags are the dom2 flag values as the code itself produces them (learned from unwrap/checkHash).
type flags struct {
	pure, ctx, ph int
	ok            bool
}

// pathFor returns the unique path consistent with the world (nil if none/ambiguous).
func pathFor(paths []*pt.Path, w *g.World) *pt.Path {
	var found *pt.Path
outer:
	for _, p := range paths {
		for _, a := range p.Atoms {
			if a.Loop {
				continue
			}
			v, err := g.EvalBool(a.T, w)
			if err != nil || v != a.Val {
				continue outer
			}
		}
		if found != nil {
			return nil
		}
		found = p
	}
	return found
}

func constOf(t *pt.Term) (int, bool) {
	var n int
	if t == nil || len(t.Args) != 0 || !strings.HasPrefix(t.Op, "#") {
		return 0, false
	}
	if _, err := fmt.Sscanf(t.Op, "#%d", &n); err != nil {
		return 0, false
	}
	return n, true
}

// ---- unwrap ----------------------------------------------------------------

const ctxLenKey = "len(fld(P0,Context))"

// ruleUnwrap: F/G on the option unwrapping: context-length partition {0} / {1..255} / {256..}.
func ruleUnwrap(r *rep.Report, p *load.Program, rl *roles.Roles, fl *flags) {
	cfg := p.Cfg.Name
	if !needRole(r, cfg, rl, "unwrap", rl.Unwrap) {
		return
	}
	paths := pathsOf(r, p, rl.Unwrap, rootModel(rl), "unwrap")
	if paths == nil {
		return
	}
	w0 := &g.World{Ints: map[string]int{ctxLenKey: 0}}
	w1 := &g.World{Ints: map[string]int{ctxLenKey: 1}}
	p0, p1 := pathFor(paths, w0), pathFor(paths, w1)
	pos := ssau.Pos(p, rl.Unwrap.Pos())
	if p0 == nil || p1 == nil || p0.Kind != "return" || p1.Kind != "return" || len(p0.Results) != 3 || len(p1.Results) != 3 {
		r.Fail("F-unwrap", cfg, "unwrap: context classes 0 and 1 reach a return", pos, "unwrap:shape", "cannot determine the flags returned for an empty / one-byte context (unrecognised shape)")
		return
	}
	pure, ok1 := constOf(p0.Results[0])
	ctx, ok2 := constOf(p1.Results[0])
	if !ok1 || !ok2 {
		r.Fail("F-unwrap", cfg, "unwrap: returned flags are constants", pos, "unwrap:flags", fmt.Sprintf("flags are not constants: %s / %s", p0.Results[0], p1.Results[0]))
		return
	}
	fl.pure, fl.ctx = pure, ctx
	worlds := g.Product(map[string][]int{ctxLenKey: {0, 1, 2, 3, 127, 254, 255, 256, 257, 1000, 70000}}, nil, nil)
	ctxBytes := T("bytes", T("fld", L("P0"), L("Context"))).String()
	expect := func(w *g.World) g.Terminal {
		n := w.Ints[ctxLenKey]
		switch {
		case n == 0:
			return g.Terminal{Kind: "return", Results: []string{N(pure).String(), "nil", "nil"}}
		case n <= 255:
			return g.Terminal{Kind: "return", Results: []string{N(ctx).String(), ctxBytes, "nil"}}
		default:
			return g.Terminal{Kind: "return", Results: []string{"*", "*", "~error("}}
		}
	}
	runG(r, p, "F-unwrap", "unwrap", rl.Unwrap, paths, worlds, expect)
	r.Check(ctx == 0 && pure != 0 && pure != 1, "A-dom2-flags", cfg, "Ed25519ctx flag is 0 and the internal pure marker is outside {0,1}", pos,
		fmt.Sprintf("ctx=%d pure=%d", ctx, pure), fmt.Sprintf("RFC 8032 dom2 flag for Ed25519ctx is 0 and pure must not collide with 0/1; got ctx=%d pure=%d", ctx, pure))
}

// ---- checkHash --------------------------------------------------------------

func cryptoSHA512(p *load.Program) int {
	for _, pkg := range p.All {
		if pkg.PkgPath == "crypto" {
			if v, ok := lit.ConstInt(pkg, "SHA512"); ok {
				return int(v.Int64())
			}
		}
	}
	return 7
}

// ruleCheckHash: F on the hash selector x digest length table.
func ruleCheckHash(r *rep.Report, p *load.Program, rl *roles.Roles, fl *flags) {
	cfg := p.Cfg.Name
	if !needRole(r, cfg, rl, "checkHash", rl.CheckHash) {
		return
	}
	paths := pathsOf(r, p, rl.CheckHash, rootModel(rl), "checkHash")
	if paths == nil {
		return
	}
	sha := cryptoSHA512(p)
	pos := ssau.Pos(p, rl.CheckHash.Pos())
	// parameter positions: flag, message, hash selector
	sig := rl.CheckHash.Signature.Params()
	if sig.Len() != 3 || sig.At(2).Type().String() != "crypto.Hash" || sig.At(1).Type().String() != "[]byte" {
		r.Fail("F-checkHash", cfg, "checkHash has the (flag, message, selector) shape", pos, "checkHash:sig", "unrecognised signature "+rl.CheckHash.Signature.String())
		return
	}
	wph := &g.World{Ints: map[string]int{"P2": sha, "len(P1)": 64}}
	pp := pathFor(paths, wph)
	if pp == nil || pp.Kind != "return" || len(pp.Results) != 2 {
		r.Fail("F-checkHash", cfg, "checkHash: SHA-512 with a 64-byte digest reaches a return", pos, "checkHash:shape", "cannot determine the flag returned for SHA-512 / 64 bytes (unrecognised shape)")
		return
	}
	ph, ok := constOf(pp.Results[0])
	if !ok {
		r.Fail("F-checkHash", cfg, "checkHash: ph flag is a constant", pos, "checkHash:flag", "flag is not a constant: "+pp.Results[0].String())
		return
	}
	fl.ph = ph
	fl.ok = true
	worlds := g.Product(map[string][]int{"P2": {0, 1, 4, 5, 6, sha, sha + 1, 19}, "len(P1)": {0, 1, 32, 63, 64, 65, 128, 1000}}, nil, nil)
	expect := func(w *g.World) g.Terminal {
		h, n := w.Ints["P2"], w.Ints["len(P1)"]
		switch {
		case h == sha && n == 64:
			return g.Terminal{Kind: "return", Results: []string{N(ph).String(), "nil"}}
		case h == sha:
			return g.Terminal{Kind: "return", Results: []string{"*", "~error("}}
		case h == 0:
			return g.Terminal{Kind: "return", Results: []string{"P0", "nil"}}
		default:
			return g.Terminal{Kind: "return", Results: []string{"*", "~error("}}
		}
	}
	runG(r, p, "F-checkHash", "checkHash", rl.CheckHash, paths, worlds, expect)
	r.Check(ph == 1, "A-dom2-flags", cfg, "Ed25519ph flag is 1", pos, "ph=1", fmt.Sprintf("RFC 8032 dom2 flag for Ed25519ph is 1; got %d", ph))
}

// ---- writeDom2 ---------------------------------------------------------------

const rfcDom2Prefix = "SigEd25519 no Ed25519 collisions"

// ruleWriteDom2: H on the dom2 encoding: prefix || flag byte || length byte (lossless) || context.
func ruleWriteDom2(r *rep.Report, p *load.Program, rl *roles.Roles) {
	cfg := p.Cfg.Name
	if !needRole(r, cfg, rl, "writeDom2", rl.WriteDom2) {
		return
	}
	fn := rl.WriteDom2
	pos := ssau.Pos(p, fn.Pos())
	ps := fn.Signature.Params()
	if ps.Len() != 3 || ps.At(0).Type().String() != "io.Writer" || ps.At(2).Type().String() != "[]byte" {
		r.Fail("H-dom2", cfg, "writeDom2 has the (writer, flag, context) shape", pos, "writeDom2:sig", "unrecognised signature "+fn.Signature.String())
		return
	}
	m := rootModel(rl)
	paths := pathsOf(r, p, fn, m, "writeDom2")
	if paths == nil {
		return
	}
	worlds := g.Product(map[string][]int{"len(P2)": {0, 1, 2, 254, 255, 256, 257, 1000}}, nil, nil)
	expect := func(w *g.World) g.Terminal {
		if w.Ints["len(P2)"] > 255 {
			return g.Terminal{Kind: "panic"}
		}
		return g.Terminal{Kind: "return"}
	}
	// a writeDom2 without the redundant length panic is also fine as long as every caller bounds the context (unwrap does);
	// so accept both: only compare the worlds with len <= 255 if no panic path exists.
	hasPanic := false
	for _, pa := range paths {
		if pa.Kind == "panic" {
			hasPanic = true
		}
	}
	if !hasPanic {
		worlds = g.Product(map[string][]int{"len(P2)": {0, 1, 2, 254, 255}}, nil, nil)
		r.Assume("writeDom2 does not bound the context length itself; losslessness of the length byte then rests on unwrap's bound (rule F-unwrap)")
	}
	runG(r, p, "H-dom2", "writeDom2", fn, paths, worlds, expect)
	wantPrefix := T("bytes", L(fmt.Sprintf("%q", rfcDom2Prefix))).String()
	lenByteOK := func(t *pt.Term) bool {
		// conv:uint8(len(P2)) possibly with further no-op conversions
		for strings.HasPrefix(t.Op, "conv:") && len(t.Args) == 1 {
			t = t.Args[0]
		}
		return t.String() == "len(P2)"
	}
	flagByteOK := func(t *pt.Term) bool {
		for strings.HasPrefix(t.Op, "conv:") && len(t.Args) == 1 {
			t = t.Args[0]
		}
		return t.String() == "P1"
	}
	for _, pa := range paths {
		if pa.Kind != "return" {
			continue
		}
		var writes []*pt.Term
		for _, e := range pa.Events {
			if e.Callee == "invoke:Write" && len(e.Args) == 2 && e.Args[0].String() == "P0" {
				writes = append(writes, e.Args[1])
			} else if strings.HasPrefix(e.Callee, "invoke:") || strings.HasPrefix(e.Callee, "ext:") {
				r.Fail("H-dom2", cfg, "writeDom2 only writes to its writer", ssau.Pos(p, e.Pos), "writeDom2:event:"+e.Callee, "unexpected call "+e.Callee)
			}
		}
		// flatten: the transcript is the concatenation of all writes
		var flat []*pt.Term
		for _, wt := range writes {
			if wt.Op == "cat" {
				flat = append(flat, wt.Args...)
			} else {
				flat = append(flat, wt)
			}
		}
		ok := len(flat) == 4 && flat[0].String() == wantPrefix &&
			flat[1].Op == "byte" && flagByteOK(flat[1].Args[0]) &&
			flat[2].Op == "byte" && lenByteOK(flat[2].Args[0]) &&
			flat[3].String() == "P2"
		var got []string
		for _, f := range flat {
			got = append(got, f.String())
		}
		r.Check(ok, "H-dom2", cfg, "writeDom2 transcript = prefix || byte(flag) || byte(len(context)) || context", ssau.Pos(p, pa.ExitPos),
			"4 items, prefix is the RFC 8032 string, length byte is exact because len<=255 dominates the conversion",
			fmt.Sprintf("transcript is %v, want [%s byte(flag) byte(len(ctx)) ctx]", got, wantPrefix))
	}
}

// ---- verifyCore ----------------------------------------------------------------

type verifySpec struct {
	decA, smA, min, decR, smR string // atom keys
	acceptPure, acceptDom     string
}

func verifyAtoms() verifySpec {
	pk, msg, sig := L("P0"), L("P1"), L("P2")
	r32, s32 := sub(sig, 0, 32), sub(sig, 32, 64)
	accept := func(dom bool) string {
		tr := []*pt.Term{r32, pk, msg}
		if dom {
			tr = append([]*pt.Term{T("dom2", L("P3"), L("P4"))}, tr...)
		}
		h := T("modm.Expand", T("SHA512", tr...))
		a := T("ge25519.UnpackNegativeVartime", pk)
		s := T("modm.Expand", s32)
		rp := T("ge25519.ProjectiveToExtended", T("ge25519.DoubleScalarmultVartime", a, h, s))
		return T("ge25519.CofactorEqual", rp, T("ge25519.UnpackVartime", r32)).String()
	}
	return verifySpec{
		decA:       T("ok:ge25519.UnpackNegativeVartime", pk).String(),
		smA:        T("smallOrder", pk).String(),
		min:        T("scMin", s32).String(),
		decR:       T("ok:ge25519.UnpackVartime", r32).String(),
		smR:        T("smallOrder", r32).String(),
		acceptPure: accept(false), acceptDom: accept(true),
	}
}

// ruleVerifyCore: G+S+H on the single-signature verifier. zipOnly restricts the worlds (nil = both).
func ruleVerifyCore(r *rep.Report, p *load.Program, rl *roles.Roles, fl *flags, rule string) []*pt.Path {
	cfg := p.Cfg.Name
	if !needRole(r, cfg, rl, "verifyCore", rl.VerifyCore) {
		return nil
	}
	fn := rl.VerifyCore
	pos := ssau.Pos(p, fn.Pos())
	ps := fn.Signature.Params()
	okSig := ps.Len() == 6 && strings.HasSuffix(ps.At(0).Type().String(), "PublicKey") && ps.At(1).Type().String() == "[]byte" && ps.At(2).Type().String() == "[]byte" &&
		ps.At(4).Type().String() == "[]byte" && ps.At(5).Type().String() == "bool"
	if !okSig {
		r.Fail(rule, cfg, "verifyCore has the (key, message, sig, flag, context, zip215) shape", pos, "verifyCore:sig", "unrecognised signature "+fn.Signature.String())
		return nil
	}
	paths := pathsOf(r, p, fn, rootModel(rl), "verifyCore")
	if paths == nil {
		return nil
	}
	vs := verifyAtoms()
	worlds := g.Product(map[string][]int{
		"len(P0)": {0, 31, 32, 33, 64},
		"len(P2)": {0, 63, 64, 65, 128},
		"P2[#63]": {0x00, 0x0f, 0x10, 0x1f, 0x20, 0x40, 0x80, 0xff},
		"P3":      {fl.ctx, fl.ph, fl.pure},
	}, []string{vs.decA, vs.smA, vs.min, vs.decR, vs.smR, "P5"}, func(w *g.World) bool {
		if w.Ints["len(P2)"] != 64 && w.Ints["P2[#63]"] != 0 {
			return false // the byte only exists for 64-byte signatures; keep one representative
		}
		if !w.Bools[vs.decA] && !w.Bools[vs.smA] {
			return false // axiom: undecodable => small order
		}
		if !w.Bools[vs.decR] && !w.Bools[vs.smR] {
			return false
		}
		if w.Ints["len(P2)"] == 64 {
			b := w.Ints["P2[#63]"]
			if b&0xe0 != 0 && w.Bools[vs.min] {
				return false // axiom: top three bits set => S >= 2^253 > L
			}
			if b&0xf0 == 0 && !w.Bools[vs.min] {
				return false // axiom: S < 2^252 < L
			}
		}
		return true
	})
	expect := func(w *g.World) g.Terminal {
		if w.Ints["len(P0)"] != 32 {
			return g.Terminal{Kind: "panic"}
		}
		z := w.Bools["P5"]
		ok := w.Ints["len(P2)"] == 64 && w.Bools[vs.decA] && (z || !w.Bools[vs.smA]) && w.Bools[vs.min] && w.Bools[vs.decR] && (z || !w.Bools[vs.smR])
		if !ok {
			return g.Terminal{Kind: "return", Results: []string{"#false"}}
		}
		if w.Ints["P3"] == fl.pure {
			return g.Terminal{Kind: "return", Results: []string{vs.acceptPure}}
		}
		return g.Terminal{Kind: "return", Results: []string{vs.acceptDom}}
	}
	runG(r, p, rule, "verifyCore", fn, paths, worlds, expect)
	return paths
}

// ruleUsesOnly checks that a leaf (parameter or region) flows only into the listed callees / guard atoms.
func ruleUsesOnly(r *rep.Report, p *load.Program, rule, role string, paths []*pt.Path, leafDesc string, isLeaf func(*pt.Term) bool, allowedCallee map[string]bool, through map[string]bool) {
	cfg := p.Cfg.Name
	if paths == nil {
		return
	}
	n := 0
	bad := map[string]string{}
	// occurrence of the leaf as a direct argument, or nested below operators not in `through`
	// the leaf occurs as the argument itself or below pure byte-shuffling operators (cat/sub/byte/bitwise);
	// an argument that is the *result* of an earlier call (SHA512(..), modm.Expand(..)) was judged at that call.
	var occurs func(t *pt.Term, depth int) bool
	occurs = func(t *pt.Term, depth int) bool {
		if t == nil {
			return false
		}
		if isLeaf(t) {
			return true
		}
		if !through[t.Op] {
			return false
		}
		for _, a := range t.Args {
			if occurs(a, depth+1) {
				return true
			}
		}
		return false
	}
	for _, pa := range paths {
		for _, e := range pa.Events {
			// parking the value in a local of the function (a slice of parts handed to a helper, a temporary) is not a
			// use: whatever later reads the local shows up as its own event with the same term
			if e.Callee == "store" && len(e.Addrs) == 1 && e.Addrs[0] != nil && strings.HasPrefix(e.Addrs[0].String(), "addr(local:") {
				continue
			}
			for _, a := range e.Args {
				if occurs(a, 0) {
					n++
					if !allowedCallee[e.Callee] {
						bad[e.Callee] = ssau.Pos(p, e.Pos)
					}
				}
			}
		}
	}
	if len(bad) > 0 {
		for c, pos := range bad {
			r.Fail(rule, cfg, role+": "+leafDesc+" flows only into the documented consumers", pos, role+":use:"+leafDesc+":"+c, leafDesc+" is passed to "+c+", which is not among the documented consumers")
		}
		return
	}
	r.Check(n > 0, rule, cfg, role+": "+leafDesc+" flows only into the documented consumers", "", fmt.Sprintf("%d uses, all in the allowed set", n), "no use of "+leafDesc+" found at all (role has no instance)")
}

// ---- noPanic / wrappers ----------------------------------------------------------

func ruleNoPanic(r *rep.Report, p *load.Program, rl *roles.Roles) {
	cfg := p.Cfg.Name
	if !needRole(r, cfg, rl, "noPanic", rl.NoPanic) {
		return
	}
	fn := rl.NoPanic
	paths := pathsOf(r, p, fn, rootModel(rl), "noPanic")
	if paths == nil {
		return
	}
	opts := L("P3")
	uw := T("unwrap", opts)
	ch := T("checkHash", T("res", uw, N(0)), L("P1"), T("fld", opts, L("Hash")))
	uerr := T("res", uw, N(2))
	cerr := T("res", ch, N(1))
	aU := T("eq", L("nil"), uerr).String()
	aC := T("eq", L("nil"), cerr).String()
	call := T("verifyCore", L("P0"), L("P1"), L("P2"), T("res", ch, N(0)), T("res", uw, N(1)), T("fld", opts, L("ZIP215Verify"))).String()
	worlds := g.Product(map[string][]int{"len(P0)": {0, 31, 32, 33, 64}}, []string{aU, aC}, nil)
	expect := func(w *g.World) g.Terminal {
		switch {
		case !w.Bools[aU]:
			return g.Terminal{Kind: "return", Results: []string{"#false", uerr.String()}}
		case !w.Bools[aC]:
			return g.Terminal{Kind: "return", Results: []string{"#false", cerr.String()}}
		case w.Ints["len(P0)"] != 32:
			return g.Terminal{Kind: "return", Results: []string{"#false", "~error("}}
		}
		return g.Terminal{Kind: "return", Results: []string{call, "nil"}}
	}
	runG(r, p, "G-noPanic", "noPanic", fn, paths, worlds, expect)
}

func ruleVerifyWrappers(r *rep.Report, p *load.Program, rl *roles.Roles, fl *flags) {
	cfg := p.Cfg.Name
	if rl.Verify != nil {
		paths := pathsOf(r, p, rl.Verify, rootModel(rl), "Verify")
		want := T("verifyCore", L("P0"), L("P1"), L("P2"), N(fl.pure), L("nil"), L("#false")).String()
		runG(r, p, "G-wrappers", "Verify", rl.Verify, paths, []g.World{{Desc: "any"}}, func(w *g.World) g.Terminal {
			return g.Terminal{Kind: "return", Results: []string{want}}
		})
	}
	if rl.VerifyWithOptions != nil {
		paths := pathsOf(r, p, rl.VerifyWithOptions, rootModel(rl), "VerifyWithOptions")
		np := T("noPanic", L("P0"), L("P1"), L("P2"), L("P3"))
		aE := T("eq", L("nil"), T("res", np, N(1))).String()
		worlds := g.Product(nil, []string{aE}, nil)
		runG(r, p, "G-wrappers", "VerifyWithOptions", rl.VerifyWithOptions, paths, worlds, func(w *g.World) g.Terminal {
			if !w.Bools[aE] {
				return g.Terminal{Kind: "panic"}
			}
			return g.Terminal{Kind: "return", Results: []string{T("res", np, N(0)).String()}}
		})
	}
	_ = cfg
}

// ---- signing ------------------------------------------------------------------------

func signExpected(dom bool) string {
	priv, msg := L("P0"), L("P1")
	hseed := T("SHA512", sub(priv, 0, 32))
	d := func(items ...*pt.Term) []*pt.Term {
		if dom {
			return append([]*pt.Term{T("dom2", L("P2"), L("P3"))}, items...)
		}
		return items
	}
	rr := T("modm.Expand", T("SHA512", d(sub(hseed, 32, 64), msg)...))
	R := T("ge25519.Pack", T("ge25519.ScalarmultBaseNiels", L("G:ge25519.NielsBaseMultiples"), rr))
	h := T("modm.Expand", T("SHA512", d(R, sub(priv, 32, 64), msg)...))
	a := T("modm.Expand", T("clamp", sub(hseed, 0, 32)))
	S := T("modm.Contract", T("modm.Add", T("modm.Mul", h, a), rr))
	return T("cat", R, S).String()
}

func ruleSignCore(r *rep.Report, p *load.Program, rl *roles.Roles, fl *flags) []*pt.Path {
	cfg := p.Cfg.Name
	if !needRole(r, cfg, rl, "signCore", rl.SignCore) {
		return nil
	}
	fn := rl.SignCore
	ps := fn.Signature.Params()
	if ps.Len() != 4 || ps.At(1).Type().String() != "[]byte" || ps.At(3).Type().String() != "[]byte" {
		r.Fail("S-sign", cfg, "signCore has the (key, message, flag, context) shape", ssau.Pos(p, fn.Pos()), "signCore:sig", "unrecognised signature "+fn.Signature.String())
		return nil
	}
	paths := pathsOf(r, p, fn, rootModel(rl), "signCore")
	if paths == nil {
		return nil
	}
	worlds := g.Product(map[string][]int{"len(P0)": {0, 32, 63, 64, 65, 128}, "P2": {fl.ctx, fl.ph, fl.pure}}, nil, nil)
	expPure, expDom := signExpected(false), signExpected(true)
	runG(r, p, "S-sign", "signCore", fn, paths, worlds, func(w *g.World) g.Terminal {
		if w.Ints["len(P0)"] != 64 {
			return g.Terminal{Kind: "panic"}
		}
		if w.Ints["P2"] == fl.pure {
			return g.Terminal{Kind: "return", Results: []string{expPure}}
		}
		return g.Terminal{Kind: "return", Results: []string{expDom}}
	})
	return paths
}

func ruleSignWrappers(r *rep.Report, p *load.Program, rl *roles.Roles, fl *flags) {
	cfg := p.Cfg.Name
	if rl.Sign != nil {
		paths := pathsOf(r, p, rl.Sign, rootModel(rl), "Sign")
		want := T("signCore", L("P0"), L("P1"), N(fl.pure), L("nil")).String()
		runG(r, p, "G-wrappers", "Sign", rl.Sign, paths, []g.World{{Desc: "any"}}, func(w *g.World) g.Terminal {
			return g.Terminal{Kind: "return", Results: []string{want}}
		})
	}
	if rl.PrivSign == nil {
		r.Fail("role", cfg, "PrivateKey.Sign exists", "", "role:PrivateKey.Sign", rl.Errs["PrivateKey.Sign"])
		return
	}
	fn := rl.PrivSign
	// params: recv, rand, message, opts
	if len(fn.Params) != 4 {
		r.Fail("G-privsign", cfg, "PrivateKey.Sign has the (rand, message, opts) shape", ssau.Pos(p, fn.Pos()), "privsign:sig", fn.Signature.String())
		return
	}
	refs := fn.Params[1].Referrers()
	nref := 0
	if refs != nil {
		for _, x := range *refs {
			if _, ok := x.(*ssa.DebugRef); !ok {
				nref++
			}
		}
	}
	r.Check(nref == 0, "M4-rand-unused", cfg, "PrivateKey.Sign never uses its entropy argument", ssau.Pos(p, fn.Pos()), "the parameter has zero referrers in go/ssa", fmt.Sprintf("the entropy parameter has %d uses", nref))
	paths := pathsOf(r, p, fn, rootModel(rl), "PrivateKey.Sign")
	if paths == nil {
		return
	}
	opts := L("P3")
	asO := T("as:*ed25519.Options", opts)
	isO := T("typeis:*ed25519.Options", opts).String()
	uw := T("unwrap", asO)
	hf := T("invoke:HashFunc", opts)
	chO := T("checkHash", T("res", uw, N(0)), L("P2"), hf)
	chP := T("checkHash", N(fl.pure), L("P2"), hf)
	aU := T("eq", L("nil"), T("res", uw, N(2))).String()
	aCO := T("eq", L("nil"), T("res", chO, N(1))).String()
	aCP := T("eq", L("nil"), T("res", chP, N(1))).String()
	worlds := g.Product(nil, []string{isO, aU, aCO, aCP}, nil)
	runG(r, p, "G-privsign", "PrivateKey.Sign", fn, paths, worlds, func(w *g.World) g.Terminal {
		if w.Bools[isO] {
			if !w.Bools[aU] {
				return g.Terminal{Kind: "return", Results: []string{"nil", T("res", uw, N(2)).String()}}
			}
			if !w.Bools[aCO] {
				return g.Terminal{Kind: "return", Results: []string{"nil", T("res", chO, N(1)).String()}}
			}
			return g.Terminal{Kind: "return", Results: []string{T("signCore", L("P0"), L("P2"), T("res", chO, N(0)), T("res", uw, N(1))).String(), "nil"}}
		}
		if !w.Bools[aCP] {
			return g.Terminal{Kind: "return", Results: []string{"nil", T("res", chP, N(1)).String()}}
		}
		return g.Terminal{Kind: "return", Results: []string{T("signCore", L("P0"), L("P2"), T("res", chP, N(0)), L("nil")).String(), "nil"}}
	})
}

// ---- keys ---------------------------------------------------------------------------------

func pubFromSeed(seed *pt.Term) *pt.Term {
	return T("ge25519.Pack", T("ge25519.ScalarmultBaseNiels", L("G:ge25519.NielsBaseMultiples"), T("modm.Expand", T("clamp", sub(T("SHA512", seed), 0, 32)))))
}

func ruleNewKeyFromSeed(r *rep.Report, p *load.Program, rl *roles.Roles) {
	if rl.NewKeyFromSeed == nil {
		return
	}
	fn := rl.NewKeyFromSeed
	m := rootModel(rl)
	m.Name = func(f *ssa.Function) string { // analyse NewKeyFromSeed itself: do not treat it as a role callee
		if f == fn {
			return ""
		}
		return rootModel(rl).Name(f)
	}
	paths := pathsOf(r, p, fn, m, "NewKeyFromSeed")
	worlds := g.Product(map[string][]int{"len(P0)": {0, 16, 31, 32, 33, 64}}, nil, nil)
	want := T("cat", L("P0"), pubFromSeed(L("P0"))).String()
	runG(r, p, "S-keygen", "NewKeyFromSeed", fn, paths, worlds, func(w *g.World) g.Terminal {
		if w.Ints["len(P0)"] != 32 {
			return g.Terminal{Kind: "panic"}
		}
		return g.Terminal{Kind: "return", Results: []string{want}}
	})
}

func ruleGenerateKey(r *rep.Report, p *load.Program, rl *roles.Roles) {
	cfg := p.Cfg.Name
	if rl.GenerateKey == nil {
		return
	}
	fn := rl.GenerateKey
	m := rootModel(rl)
	m.ResultLen = map[string]int{"NewKeyFromSeed": 64}
	paths := pathsOf(r, p, fn, m, "GenerateKey")
	if paths == nil {
		return
	}
	rdDefault, rdArg := L("G:rand.Reader"), L("P0")
	isNil := T("eq", L("P0"), L("nil")).String()
	read := func(x *pt.Term) *pt.Term { return T("ReadFull", x, N(32)) }
	errOf := func(x *pt.Term) *pt.Term { return T("res", read(x), N(1)) }
	aD := T("eq", L("nil"), errOf(rdDefault)).String()
	aA := T("eq", L("nil"), errOf(rdArg)).String()
	worlds := g.Product(nil, []string{isNil, aD, aA}, nil)
	runG(r, p, "S-generate", "GenerateKey", fn, paths, worlds, func(w *g.World) g.Terminal {
		x, a := rdArg, aA
		if w.Bools[isNil] {
			x, a = rdDefault, aD
		}
		if !w.Bools[a] {
			return g.Terminal{Kind: "return", Results: []string{"nil", "nil", errOf(x).String()}}
		}
		key := T("NewKeyFromSeed", read(x))
		return g.Terminal{Kind: "return", Results: []string{sub(key, 32, 64).String(), key.String(), "nil"}}
	})
	// exactly one entropy read per path, of exactly 32 bytes, into a fresh (zero) buffer
	for _, pa := range paths {
		n := 0
		ok := true
		for _, e := range pa.Events {
			if e.Callee == "io.ReadFull" {
				n++
				if len(e.Args) != 3 || e.Args[2].String() != "#32" || e.Args[1] != pt.Zero {
					ok = false
				}
			}
			if strings.HasPrefix(e.Callee, "invoke:") { // e.g. rand.Read called directly
				ok = false
			}
		}
		r.Check(n == 1 && ok, "S-generate", cfg, "GenerateKey reads the entropy source exactly once, 32 bytes, via io.ReadFull into a fresh buffer", ssau.Pos(p, pa.ExitPos),
			"one io.ReadFull(reader, make(32))", fmt.Sprintf("%d io.ReadFull events (or a direct reader call) on this path", n))
	}
}

func ruleAccessors(r *rep.Report, p *load.Program, rl *roles.Roles) {
	cfg := p.Cfg.Name
	for _, c := range []struct {
		name   string
		lo, hi int
	}{{"Public", 32, 64}, {"Seed", 0, 32}} {
		fn := ssau.Method(p, "", "PrivateKey", c.name)
		if fn == nil {
			r.Fail("role", cfg, "PrivateKey."+c.name+" exists", "", "role:PrivateKey."+c.name, "method not found")
			continue
		}
		m := rootModel(rl)
		m.Facts = map[int]int{0: 64} // accessors are considered on well-formed 64-byte keys only (property C13/C14 scope)
		paths := pathsOf(r, p, fn, m, "PrivateKey."+c.name)
		want := sub(L("P0"), c.lo, c.hi).String()
		runG(r, p, "S-accessors", "PrivateKey."+c.name, fn, paths, []g.World{{Desc: "64-byte key"}}, func(w *g.World) g.Terminal {
			return g.Terminal{Kind: "return", Results: []string{want}}
		})
	}
}

func ruleEqual(r *rep.Report, p *load.Program, rl *roles.Roles) {
	cfg := p.Cfg.Name
	for _, tn := range []string{"PrivateKey", "PublicKey"} {
		fn := ssau.Method(p, "", tn, "Equal")
		if fn == nil {
			r.Fail("role", cfg, tn+".Equal exists", "", "role:"+tn+".Equal", "method not found")
			continue
		}
		paths := pathsOf(r, p, fn, rootModel(rl), tn+".Equal")
		if paths == nil {
			continue
		}
		is := T("typeis:ed25519."+tn, L("P1")).String()
		as := T("as:ed25519."+tn, L("P1"))
		eq1 := T("byteseq", L("P0"), as).String()
		eq2 := T("eq", N(1), T("cteq", L("P0"), as)).String()
		worlds := g.Product(nil, []string{is}, nil)
		// both whole-slice equality primitives are acceptable here; which one is C20's business
		got := ""
		for _, pa := range paths {
			if pa.Kind == "return" && len(pa.Results) == 1 && (pa.Results[0].String() == eq1 || pa.Results[0].String() == eq2) {
				got = pa.Results[0].String()
			}
		}
		runG(r, p, "G-equal", tn+".Equal", fn, paths, worlds, func(w *g.World) g.Terminal {
			if !w.Bools[is] {
				return g.Terminal{Kind: "return", Results: []string{"#false"}}
			}
			if got == "" {
				return g.Terminal{Kind: "return", Results: []string{eq1}}
			}
			return g.Terminal{Kind: "return", Results: []string{got}}
		})
	}
}

// ---- small order ---------------------------------------------------------------------------

func ruleSmallOrder(r *rep.Report, p *load.Program, rl *roles.Roles) {
	cfg := p.Cfg.Name
	if !needRole(r, cfg, rl, "smallOrder", rl.SmallOrder) {
		return
	}
	fn := rl.SmallOrder
	paths := pathsOf(r, p, fn, rootModel(rl), "smallOrder")
	dec := T("ok:ge25519.UnpackVartime", L("P0")).String()
	want := T("ge25519.IsNeutralVartime", T("ge25519.CofactorMultiply", T("ge25519.UnpackVartime", L("P0")))).String()
	runG(r, p, "S-smallorder", "smallOrder", fn, paths, g.Product(nil, []string{dec}, nil), func(w *g.World) g.Terminal {
		if !w.Bools[dec] {
			return g.Terminal{Kind: "return", Results: []string{"#true"}}
		}
		return g.Terminal{Kind: "return", Results: []string{want}}
	})
}

func ruleBatchNeutral(r *rep.Report, p *load.Program, rl *roles.Roles) {
	cfg := p.Cfg.Name
	if !needRole(r, cfg, rl, "batchNeutral", rl.BatchNeutral) {
		return
	}
	fn := rl.BatchNeutral
	paths := pathsOf(r, p, fn, rootModel(rl), "batchNeutral")
	if paths == nil {
		return
	}
	// free booleans: any package-level test switch the function consults
	var sw []string
	for _, pa := range paths {
		for _, a := range pa.Atoms {
			if strings.HasPrefix(a.Key, "G:") {
				dup := false
				for _, s := range sw {
					if s == a.Key {
						dup = true
					}
				}
				if !dup {
					sw = append(sw, a.Key)
				}
			}
		}
	}
	want := T("ge25519.IsNeutralVartime", T("ge25519.CofactorMultiply", L("P0"))).String()
	runG(r, p, "S-smallorder", "batchNeutral", fn, paths, g.Product(nil, sw, nil), func(w *g.World) g.Terminal {
		return g.Terminal{Kind: "return", Results: []string{want}}
	})
}
