#!/bin/bash
# usage: tools/mutrun.sh <patch.diff> [props...]   — applies the patch to a scratch worktree of /repo (never /repo itself),
# runs the given property checks (default: all registered) against it with evidence redirected to a temp dir, prints which fired.
set -u
patch="$1"; shift
props="${*:-all}"
W=$(mktemp -d /tmp/mutrepo.XXXXXX)
E=$(mktemp -d /tmp/mutev.XXXXXX)
git -C /repo worktree add -q --detach "$W" HEAD >/dev/null 2>&1 || { echo "worktree failed"; exit 2; }
if ! git -C "$W" apply "$patch" 2>/dev/null; then echo "PATCH-DOES-NOT-APPLY $patch"; git -C /repo worktree remove --force "$W"; rm -rf "$E"; exit 3; fi
cp /verif/known_findings.txt "$E"/ 2>/dev/null
fired=""
for p in $props; do
  out=$(EDCHECK_REPO="$W" EDCHECK_VERIF="$E" ${EDCHECK_BIN:-/verif/bin/edcheck} -prop "$p" -tier "${TIER:-quick}" 2>&1)
  ids=$(echo "$out" | grep -o '^VIOLATION property=C[0-9]*' | sort -u | sed 's/VIOLATION property=//' | tr '\n' ' ')
  fired="$fired$ids"
  if [ -n "${VERBOSE:-}" ]; then echo "$out" | grep -A2 '^VIOLATION' | cut -c1-400 | head -${VERBOSE}; fi
done
echo "FIRED: $(echo $fired | tr ' ' '\n' | sort -u | tr '\n' ' ')"
git -C /repo worktree remove --force "$W"; rm -rf "$E"
