#!/bin/bash
# runs every behaviour-preserving refactor in /verif/neutral against all registered checks; any FIRED entry is a false alarm
cd /verif
for d in neutral/*/; do
  id=$(basename $d)
  ( printf "%-10s %s\n" "$id" "$(./tools/mutrun.sh $PWD/$d/patch.diff | tail -1)" ) &
  while [ $(jobs -r | wc -l) -ge ${PAR:-6} ]; do sleep 0.3; done
done
wait
