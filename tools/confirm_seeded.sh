#!/bin/bash
# Confirms every seeded defect: suite passes with the change, demo fails with it, demo passes without it.
# Works only in scratch worktrees of /repo (never /repo itself). Output: seeded/CONFIRM.tsv
export GOFLAGS=-mod=mod GOPROXY=off GOSUMDB=off GOTOOLCHAIN=local
cd /verif
out=${CONFIRM_OUT:-seeded/CONFIRM.tsv}
: > $out
for d in ${SEEDED_DIRS:-seeded/C*-*m*/}; do
  id=$(basename $d)
  W=$(mktemp -d /tmp/confirm.XXXXXX)
  git -C /repo worktree add -q --detach "$W" HEAD >/dev/null 2>&1
  if ! git -C "$W" apply "$PWD/$d/patch.diff" 2>/dev/null; then echo -e "$id\tAPPLY-FAIL" >> $out; git -C /repo worktree remove --force "$W"; continue; fi
  ( cd "$W" && go build ./... && go test -vet=off -count=1 ./... ) >/dev/null 2>&1; suite=$?
  timeout 900 bash "$d/run_demo.sh" "$W" >/dev/null 2>&1; with=$?
  git -C "$W" checkout -- . 
  timeout 900 bash "$d/run_demo.sh" "$W" >/dev/null 2>&1; without=$?
  echo -e "$id\tsuite_with_change=$suite\tdemo_with_change=$with\tdemo_without_change=$without" >> $out
  git -C /repo worktree remove --force "$W"; rm -rf "$W"
done
echo DONE >> $out
