#!/bin/bash
# runs every seeded defect in /verif/seeded (or the dirs given) against all registered checks; prints "<id> FIRED: ..." lines
cd /verif
dirs="${*:-$(ls -d seeded/*/)}"
for d in $dirs; do
  id=$(basename $d)
  [ -f $d/patch.diff ] || continue
  ( printf "%-10s %s\n" "$id" "$(./tools/mutrun.sh $PWD/$d/patch.diff | tail -1)" ) &
  while [ $(jobs -r | wc -l) -ge ${PAR:-6} ]; do sleep 0.3; done
done
wait
