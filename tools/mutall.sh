#!/bin/bash
# runs every mutant in /tmp/mutout (or the dirs given) against all registered checks; prints a table
cd /verif
dirs="${*:-$(ls -d /tmp/mutout/C*/m*/)}"
for d in $dirs; do
  id=$(echo $d | sed 's#/tmp/mutout/##;s#/$##')
  ( printf "%-8s %s\n" "$id" "$(./tools/mutrun.sh $d/patch.diff | tail -1)" ) &
  while [ $(jobs -r | wc -l) -ge 6 ]; do sleep 0.3; done
done
wait
