#!/usr/bin/env python3
# Generates MANIFEST.json from the table below (kept in one place so it stays valid).
import json
BASE="cd /repo && go test -vet=off -count=1 ./..."
checks = {}
def chk(pid, level, text, note, technique, design):
    checks[pid] = {
        "property_id": pid,
        "quick_cmd": "./check.sh %s quick" % pid,
        "thorough_cmd": "./check.sh %s thorough" % pid,
        "evidence_file": "/verif/evidence/%s.json" % pid,
        "replay_cmd_template": "./check.sh --replay {path}",
        "engine": "edcheck",
        "level_claimed": {"category": level, "text": text, "design_ref": design},
        "level_note": note,
        "technique": technique,
    }
import manifest_table
manifest_table.fill(chk)
allp = ["C%02d" % i for i in range(1, 21)]
na = [{"property_id": p, "reason": manifest_table.NA.get(p, "check not built yet (work in progress; see DESIGN.md section 9)")} for p in allp if p not in checks]
m = {
 "version": 1,
 "setup_cmd": "cd /verif && GOFLAGS=-mod=mod GOPROXY=off GOSUMDB=off GOTOOLCHAIN=local go build -o bin/edcheck ./cmd/edcheck",
 "hooks": {"guard": "verif", "enable": "no hooks are needed: the checks analyse /repo's source statically and never build or run it", "baseline_off_cmd": BASE, "source_commits": [], "add_only": True},
 "engines": manifest_table.ENGINES,
 "checks": [checks[p] for p in allp if p in checks],
 "not_applicable": na,
 "notes": manifest_table.NOTES,
}
json.dump(m, open("MANIFEST.json", "w"), indent=1)
print("claimed:", [p for p in allp if p in checks], "not_applicable:", [x["property_id"] for x in na])
