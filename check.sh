#!/bin/sh
# usage: ./check.sh <Cxx|all> [quick|thorough]   or   ./check.sh --replay <file>
cd "$(dirname "$0")" || exit 2
export GOFLAGS=-mod=mod GOPROXY=off GOSUMDB=off GOTOOLCHAIN=local
unset GOWORK
if [ ! -x bin/edcheck ] || [ -n "$(find cmd internal go.mod -newer bin/edcheck 2>/dev/null | head -1)" ]; then
  go build -o bin/edcheck ./cmd/edcheck || { echo "edcheck build failed"; exit 2; }
fi
if [ "$1" = "--replay" ]; then
  exec ./bin/edcheck -replay "$2"
fi
exec ./bin/edcheck -prop "$1" -tier "${2:-${VERIF_TIER:-quick}}"
