// Package rep collects obligations and findings of one property check and
// writes the evidence file, replay files and VIOLATION / KNOWN-FINDING lines.
package rep

import (
	"encoding/json"
	"fmt"
	"os"
	"path/filepath"
	"sort"
	"strconv"
	"strings"
	"time"
)

// VerifDir is where evidence and known findings live.
func VerifDir() string {
	if d := os.Getenv("EDCHECK_VERIF"); d != "" {
		return d
	}
	return "/verif"
}

// Obligation is one discharged or failed proof obligation / rule instance.
type Obligation struct {
	Rule      string `json:"rule"`
	Config    string `json:"config,omitempty"`
	Subject   string `json:"subject"`
	How       string `json:"how,omitempty"`
	OK        bool   `json:"ok"`
	Pos       string `json:"pos,omitempty"`
	Construct string `json:"construct,omitempty"` // normalised construct, keys known findings
}

// Report is the result of checking one property.
type Report struct {
	Prop        string
	Tier        string
	Level       string
	Seed        int
	Start       time.Time
	Obls        []Obligation
	Counts      map[string]int
	Assumptions []string
	Trusted     []string
	Explanation string
	NotDecided  string
	Configs     []string
	Controls    []string // positive controls fired
	Extra       map[string]interface{}
	Info        []string
}

// New creates a report.
func New(prop, tier, level string) *Report {
	seed, _ := strconv.Atoi(os.Getenv("VERIF_SEED"))
	return &Report{Prop: prop, Tier: tier, Level: level, Seed: seed, Start: time.Now(),
		Counts: map[string]int{}, Extra: map[string]interface{}{}}
}

// OK records a discharged obligation.
func (r *Report) OK(rule, config, subject, how string) {
	r.Obls = append(r.Obls, Obligation{Rule: rule, Config: config, Subject: subject, How: how, OK: true})
	r.Counts[rule]++
}

// Fail records a violated obligation.
func (r *Report) Fail(rule, config, subject, pos, construct, msg string) {
	r.Obls = append(r.Obls, Obligation{Rule: rule, Config: config, Subject: subject, How: msg, OK: false, Pos: pos, Construct: construct})
	r.Counts[rule]++
}

// Check records ok or failure depending on cond.
func (r *Report) Check(cond bool, rule, config, subject, pos, okHow, failMsg string) bool {
	if cond {
		r.OK(rule, config, subject, okHow)
	} else {
		r.Fail(rule, config, subject, pos, subject, failMsg)
	}
	return cond
}

// Failed counts the violated obligations recorded so far.
func (r *Report) Failed() int {
	n := 0
	for _, o := range r.Obls {
		if !o.OK {
			n++
		}
	}
	return n
}

// Count adds n to a named counter.
func (r *Report) Count(name string, n int) { r.Counts[name] += n }

// Assume records an assumption (deduplicated).
func (r *Report) Assume(s string) {
	for _, a := range r.Assumptions {
		if a == s {
			return
		}
	}
	r.Assumptions = append(r.Assumptions, s)
}

// Trust records an element of the trusted base.
func (r *Report) Trust(s string) {
	for _, a := range r.Trusted {
		if a == s {
			return
		}
	}
	r.Trusted = append(r.Trusted, s)
}

// Control records that a positive control fired; if fired is false it is a failure.
func (r *Report) Control(name string, fired bool) {
	if fired {
		r.Controls = append(r.Controls, name)
		r.OK("positive-control", "", name, "control fixture made the rule fire")
	} else {
		r.Fail("positive-control", "", name, "", "control:"+name, "positive control did NOT fire: the rule is vacuous")
	}
}

type known struct {
	kind, prop, rest string
}

func loadKnown() []known {
	b, err := os.ReadFile(filepath.Join(VerifDir(), "known_findings.txt"))
	if err != nil {
		return nil
	}
	var out []known
	for _, l := range strings.Split(string(b), "\n") {
		l = strings.TrimSpace(l)
		if l == "" || strings.HasPrefix(l, "#") {
			continue
		}
		var k known
		switch {
		case strings.HasPrefix(l, "known:"):
			k.kind = "known"
			l = strings.TrimSpace(strings.TrimPrefix(l, "known:"))
		case strings.HasPrefix(l, "fixed:"):
			k.kind = "fixed"
			l = strings.TrimSpace(strings.TrimPrefix(l, "fixed:"))
		default:
			continue
		}
		f := strings.SplitN(l, " ", 2)
		k.prop = strings.TrimPrefix(f[0], "property=")
		if len(f) > 1 {
			k.rest = f[1]
		}
		out = append(out, k)
	}
	return out
}

// matchKnown: a known line is `known: property=<id> rule=<rule> construct=<construct> -- text`.
func (k known) matches(prop string, o Obligation) bool {
	if k.kind != "known" || k.prop != prop {
		return false
	}
	head := strings.SplitN(k.rest, " -- ", 2)[0]
	var rule, construct string
	for _, f := range strings.Fields(head) {
		if strings.HasPrefix(f, "rule=") {
			rule = strings.TrimPrefix(f, "rule=")
		}
		if strings.HasPrefix(f, "construct=") {
			construct = strings.TrimPrefix(f, "construct=")
		}
	}
	return rule == o.Rule && construct == strings.ReplaceAll(o.Construct, " ", "_")
}

// Finish writes evidence, prints lines, and returns the exit code.
func (r *Report) Finish() int {
	dir := VerifDir()
	_ = os.MkdirAll(filepath.Join(dir, "evidence", "replay"), 0o755)
	// remove stale replay files of this property
	old, _ := filepath.Glob(filepath.Join(dir, "evidence", "replay", r.Prop+"-*.json"))
	for _, f := range old {
		_ = os.Remove(f)
	}
	kn := loadKnown()
	var fails, knownHits []Obligation
	discharged := 0
	for _, o := range r.Obls {
		if o.OK {
			discharged++
			continue
		}
		isKnown := false
		for _, k := range kn {
			if k.matches(r.Prop, o) {
				isKnown = true
			}
		}
		if isKnown {
			knownHits = append(knownHits, o)
		} else {
			fails = append(fails, o)
		}
	}
	for _, o := range knownHits {
		fmt.Printf("KNOWN-FINDING: property=%s rule=%s %s: %s\n", r.Prop, o.Rule, o.Subject, o.How)
	}
	// Vacuity: a run with no obligations at all is a failure.
	if len(r.Obls) == 0 {
		fails = append(fails, Obligation{Rule: "vacuity", Subject: "no obligations were generated", How: "the check analysed nothing"})
	}
	for i, o := range fails {
		p := filepath.Join(dir, "evidence", "replay", fmt.Sprintf("%s-%d.json", r.Prop, i+1))
		b, _ := json.MarshalIndent(map[string]interface{}{"property": r.Prop, "tier": r.Tier, "obligation": o}, "", " ")
		_ = os.WriteFile(p, b, 0o644)
		fmt.Printf("VIOLATION property=%s replay=%s\n", r.Prop, p)
		fmt.Printf("  rule=%s config=%s subject=%s pos=%s\n  %s\n", o.Rule, o.Config, o.Subject, o.Pos, o.How)
	}
	// samples: up to 12 obligations spread over rules + all failures
	var samples []interface{}
	seen := map[string]int{}
	for _, o := range r.Obls {
		if !o.OK {
			samples = append(samples, o)
			continue
		}
		if seen[o.Rule] < 2 && len(samples) < 40 {
			seen[o.Rule]++
			samples = append(samples, o)
		}
	}
	rules := make([]string, 0, len(r.Counts))
	for k := range r.Counts {
		rules = append(rules, k)
	}
	sort.Strings(rules)
	cov := map[string]interface{}{
		"obligations":             len(r.Obls),
		"discharged":              discharged + len(knownHits),
		"checker_cmd":             "cd /verif && ./check.sh " + r.Prop + " " + r.Tier,
		"trusted_base":            append([]string{"go/packages + go/types + go/ssa (x/tools v0.29.0)", "the rule tables under /verif/internal (transcribed from the property statements)"}, r.Trusted...),
		"explanation":             r.Explanation,
		"not_decided":             r.NotDecided,
		"samples":                 samples,
		"rule_instances":          r.Counts,
		"configurations":          r.Configs,
		"positive_controls_fired": r.Controls,
		"known_findings_hit":      len(knownHits),
		"evaluations":             len(r.Obls),
		"distinct_nontrivial":     len(r.Obls),
		"rule":                    "one evaluation per rule instance (obligation) found in /repo's current source; all are distinct by (rule, configuration, subject)",
	}
	for k, v := range r.Extra {
		if strings.HasPrefix(k, "once:") {
			continue // internal run-once markers
		}
		cov[k] = v
	}
	if len(r.Info) > 0 {
		cov["info"] = r.Info
	}
	ev := map[string]interface{}{
		"property_id": r.Prop,
		"tier":        r.Tier,
		"seed":        r.Seed,
		"level":       r.Level,
		"coverage":    cov,
		"assumptions": append([]string{}, r.Assumptions...),
		"wall_s":      time.Since(r.Start).Seconds(),
		"violations":  len(fails),
	}
	b, _ := json.MarshalIndent(ev, "", " ")
	_ = os.WriteFile(filepath.Join(dir, "evidence", r.Prop+".json"), b, 0o644)
	fmt.Printf("%s %s: obligations=%d discharged=%d violations=%d known=%d wall=%.1fs\n", r.Prop, r.Tier, len(r.Obls), discharged, len(fails), len(knownHits), time.Since(r.Start).Seconds())
	if len(fails) > 0 {
		return 1
	}
	return 0
}
