// Package mem is the provenance substrate shared by engines M (effects) and T
// (taint): a flow-insensitive points-to analysis per function family (a
// top-level function together with its closures) with bottom-up summaries.
// Roots are parameters of the top-level function, package-level variables,
// allocation sites, fresh results of calls, and Unknown (fail closed).
package mem

import (
	"fmt"
	"go/token"
	"go/types"
	"sort"
	"strings"

	"golang.org/x/tools/go/ssa"

	"verif/internal/ssau"
)

// Kind of a root.
type Kind int

const (
	Param Kind = iota
	Global
	Alloc
	Fresh
	Unknown
)

// Root is an abstract memory object ("everything reachable from ...").
type Root struct {
	Kind Kind
	Idx  int         // Param index
	Ref  interface{} // *ssa.Global, or the allocating instruction
}

func (r Root) String() string {
	switch r.Kind {
	case Param:
		return fmt.Sprintf("param%d", r.Idx)
	case Global:
		g := r.Ref.(*ssa.Global)
		return "global:" + g.Pkg.Pkg.Name() + "." + g.Name()
	case Alloc:
		if a, ok := r.Ref.(*ssa.Alloc); ok && a.Comment != "" {
			return "local:" + a.Comment
		}
		return "alloc"
	case Fresh:
		return "fresh"
	}
	return "UNKNOWN"
}

// Set of roots.
type Set map[Root]bool

func (s Set) addAll(o Set) bool {
	ch := false
	for r := range o {
		if !s[r] {
			s[r] = true
			ch = true
		}
	}
	return ch
}

// Sorted lists the roots deterministically.
func (s Set) Sorted() []Root {
	var out []Root
	for r := range s {
		out = append(out, r)
	}
	sort.Slice(out, func(i, j int) bool { return out[i].String() < out[j].String() })
	return out
}

// WriteSite is one instruction that may write a non-local root.
type WriteSite struct {
	Root       Root
	Instr      ssa.Instruction
	Via        string // "" for a direct store, else the callee
	Transitive bool   // the callee itself already wrote this global/unknown root (the origin is further down)
}

// Info is the result for one function family.
type Info struct {
	Fn      *ssa.Function
	Pts     map[ssa.Value]Set
	Stored  map[Root]Set
	Writes  []WriteSite // writes to Param / Global / Unknown roots
	Ret     []Set       // roots of each result (of the top-level function)
	Externs map[string][]ssa.Instruction
	Unres   []ssa.Instruction
	Conc    []ssa.Instruction // go statements, channel ops, defer
}

// WritesRoots returns the set of non-local roots written.
func (in *Info) WritesRoots() Set {
	s := Set{}
	for _, w := range in.Writes {
		s[w.Root] = true
	}
	return s
}

// Analysis holds memoised summaries.
type Analysis struct {
	infos map[*ssa.Function]*Info
	busy  map[*ssa.Function]bool
}

// New creates an analysis.
func New() *Analysis {
	return &Analysis{infos: map[*ssa.Function]*Info{}, busy: map[*ssa.Function]bool{}}
}

func top(fn *ssa.Function) *ssa.Function {
	for fn.Parent() != nil {
		fn = fn.Parent()
	}
	return fn
}

// PointerLike reports whether values of type t can carry provenance.
func PointerLike(t types.Type) bool {
	switch u := t.Underlying().(type) {
	case *types.Pointer, *types.Slice, *types.Interface, *types.Signature, *types.Map, *types.Chan:
		return true
	case *types.Basic:
		return u.Kind() == types.UnsafePointer || u.Kind() == types.Uintptr || u.Kind() == types.String
	case *types.Tuple:
		return true
	case *types.Struct:
		for i := 0; i < u.NumFields(); i++ {
			if PointerLike(u.Field(i).Type()) {
				return true
			}
		}
	case *types.Array:
		return PointerLike(u.Elem())
	}
	return false
}

// ExternModel describes a callee outside the module.
type ExternModel struct {
	Writes    []int  // indices of arguments whose memory may be written (-1: receiver for invoke)
	Ret       string // "fresh", "arg0", "args", "none"
	Known     bool
	VarTime   bool // not constant time in its data arguments
	Entropy   bool // reads entropy / time / environment
	ReadsOnly bool
}

// Externs is the table of every external callee the module is known to use (DESIGN App. B).
var Externs = map[string]ExternModel{
	"math/bits.Mul64":                           {Ret: "none", Known: true},
	"math/bits.Add64":                           {Ret: "none", Known: true},
	"math/bits.Sub64":                           {Ret: "none", Known: true},
	"math/bits.Mul32":                           {Ret: "none", Known: true},
	"math/bits.Add32":                           {Ret: "none", Known: true},
	"(encoding/binary.littleEndian).Uint32":     {Ret: "none", Known: true},
	"(encoding/binary.littleEndian).Uint64":     {Ret: "none", Known: true},
	"(encoding/binary.littleEndian).PutUint32":  {Writes: []int{1}, Ret: "none", Known: true},
	"(encoding/binary.littleEndian).PutUint64":  {Writes: []int{1}, Ret: "none", Known: true},
	"crypto/sha512.New":                         {Ret: "fresh", Known: true},
	"crypto/sha512.Sum512":                      {Ret: "none", Known: true}, // one-shot digest returned by value
	"io.ReadFull":                               {Writes: []int{1}, Ret: "none", Known: true, Entropy: true},
	"crypto/subtle.ConstantTimeCompare":         {Ret: "none", Known: true},
	"crypto/subtle.ConstantTimeCopy":            {Writes: []int{1}, Ret: "none", Known: true},
	"bytes.Equal":                               {Ret: "none", Known: true, VarTime: true},
	"strconv.Itoa":                              {Ret: "fresh", Known: true, VarTime: true},
	"errors.New":                                {Ret: "fresh", Known: true, VarTime: true},
	"fmt.Errorf":                                {Ret: "fresh", Known: true, VarTime: true},
	"golang.org/x/crypto/curve25519.ScalarMult": {Writes: []int{0}, Ret: "none", Known: true},
	// the module's own assembly routine (summarised by the assembly linter, engine Z): writes *t only
	"github.com/oasisprotocol/ed25519/internal/ge25519.scalarmultBaseChooseNielsAMD64": {Writes: []int{2}, Ret: "none", Known: true},
	// interface methods
	"invoke:hash.Hash.Write":            {Writes: []int{-1}, Ret: "none", Known: true},
	"invoke:hash.Hash.Sum":              {Writes: []int{-1, 0}, Ret: "arg0", Known: true},
	"invoke:hash.Hash.Reset":            {Writes: []int{-1}, Ret: "none", Known: true},
	"invoke:io.Writer.Write":            {Writes: []int{-1}, Ret: "none", Known: true},
	"invoke:crypto.SignerOpts.HashFunc": {Ret: "none", Known: true},
	// builtins
	"builtin:len":    {Ret: "none", Known: true},
	"builtin:cap":    {Ret: "none", Known: true},
	"builtin:copy":   {Writes: []int{0}, Ret: "none", Known: true},
	"builtin:append": {Writes: []int{0}, Ret: "arg0", Known: true},
}

// Of returns the summary of the family of fn.
func (a *Analysis) Of(fn *ssa.Function) *Info {
	fn = top(fn)
	if in, ok := a.infos[fn]; ok {
		return in
	}
	if a.busy[fn] {
		return nil // recursion: caller treats as unknown
	}
	a.busy[fn] = true
	in := a.analyse(fn)
	a.busy[fn] = false
	a.infos[fn] = in
	return in
}

func family(fn *ssa.Function) []*ssa.Function {
	out := []*ssa.Function{fn}
	for _, c := range fn.AnonFuncs {
		out = append(out, family(c)...)
	}
	return out
}

type state struct {
	a      *Analysis
	in     *Info
	fam    []*ssa.Function
	mc     map[*ssa.Function][]*ssa.MakeClosure
	tuple  map[ssa.Value][]Set // per-result roots of calls
	retOf  map[*ssa.Function][]Set
	writes map[string]WriteSite
}

func (st *state) pts(v ssa.Value) Set {
	switch x := v.(type) {
	case *ssa.Global:
		return Set{Root{Kind: Global, Ref: x}: true}
	case *ssa.Const, *ssa.Function, *ssa.Builtin:
		return Set{}
	}
	s, ok := st.in.Pts[v]
	if !ok {
		s = Set{}
		st.in.Pts[v] = s
	}
	return s
}

func (st *state) add(v ssa.Value, o Set) bool { return st.pts(v).addAll(o) }

func (st *state) noteWrite(r Root, in ssa.Instruction, via string) { st.noteWriteT(r, in, via, false) }

func (st *state) noteWriteT(r Root, in ssa.Instruction, via string, trans bool) {
	if r.Kind == Alloc || r.Kind == Fresh {
		return
	}
	key := fmt.Sprintf("%s|%p|%s", r, in, via)
	if _, ok := st.writes[key]; !ok {
		st.writes[key] = WriteSite{Root: r, Instr: in, Via: via, Transitive: trans}
	}
}

func (a *Analysis) analyse(fn *ssa.Function) *Info {
	in := &Info{Fn: fn, Pts: map[ssa.Value]Set{}, Stored: map[Root]Set{}, Externs: map[string][]ssa.Instruction{}}
	st := &state{a: a, in: in, fam: family(fn), mc: map[*ssa.Function][]*ssa.MakeClosure{}, tuple: map[ssa.Value][]Set{}, retOf: map[*ssa.Function][]Set{}, writes: map[string]WriteSite{}}
	for i, p := range fn.Params {
		if PointerLike(p.Type()) {
			in.Pts[p] = Set{Root{Kind: Param, Idx: i}: true}
		}
	}
	for _, f := range st.fam {
		for _, b := range f.Blocks {
			for _, ins := range b.Instrs {
				if mc, ok := ins.(*ssa.MakeClosure); ok {
					g := mc.Fn.(*ssa.Function)
					st.mc[g] = append(st.mc[g], mc)
				}
			}
		}
	}
	for iter := 0; iter < 50; iter++ {
		changed := false
		for _, f := range st.fam {
			// free variables resolve lexically to the bindings of the closure's creation sites
			for i, fv := range f.FreeVars {
				for _, mc := range st.mc[f] {
					if st.add(fv, st.pts(mc.Bindings[i])) {
						changed = true
					}
				}
			}
			for _, b := range f.Blocks {
				for _, ins := range b.Instrs {
					if st.step(f, ins) {
						changed = true
					}
				}
			}
		}
		if !changed {
			break
		}
	}
	for _, w := range st.writes {
		in.Writes = append(in.Writes, w)
	}
	sort.Slice(in.Writes, func(i, j int) bool {
		if in.Writes[i].Root.String() != in.Writes[j].Root.String() {
			return in.Writes[i].Root.String() < in.Writes[j].Root.String()
		}
		return in.Writes[i].Instr.Pos() < in.Writes[j].Instr.Pos()
	})
	in.Ret = st.retOf[fn]
	return in
}

func (st *state) load(addr Set, t types.Type) Set {
	out := Set{}
	for r := range addr {
		out.addAll(st.in.Stored[r])
		if r.Kind != Alloc {
			// memory reachable from a parameter / global / fresh / unknown object stays in that object
			out[r] = true
		}
	}
	return out
}

func (st *state) step(f *ssa.Function, ins ssa.Instruction) bool {
	switch x := ins.(type) {
	case *ssa.Alloc:
		return st.add(x, Set{Root{Kind: Alloc, Ref: x}: true})
	case *ssa.MakeSlice, *ssa.MakeMap, *ssa.MakeChan:
		return st.add(ins.(ssa.Value), Set{Root{Kind: Alloc, Ref: ins}: true})
	case *ssa.FieldAddr:
		return st.add(x, st.pts(x.X))
	case *ssa.IndexAddr:
		return st.add(x, st.pts(x.X))
	case *ssa.Slice:
		return st.add(x, st.pts(x.X))
	case *ssa.Convert:
		if PointerLike(x.Type()) {
			if PointerLike(x.X.Type()) {
				if _, isStr := x.X.Type().Underlying().(*types.Basic); isStr && x.X.Type().Underlying().(*types.Basic).Info()&types.IsString != 0 {
					if _, toSlice := x.Type().Underlying().(*types.Slice); toSlice {
						return st.add(x, Set{Root{Kind: Alloc, Ref: x}: true}) // []byte(string) copies
					}
				}
				return st.add(x, st.pts(x.X))
			}
		}
	case *ssa.ChangeType:
		return st.add(x, st.pts(x.X))
	case *ssa.ChangeInterface:
		return st.add(x, st.pts(x.X))
	case *ssa.MakeInterface:
		return st.add(x, st.pts(x.X))
	case *ssa.SliceToArrayPointer:
		return st.add(x, st.pts(x.X))
	case *ssa.TypeAssert:
		return st.add(x, st.pts(x.X))
	case *ssa.Phi:
		ch := false
		for _, e := range x.Edges {
			if st.add(x, st.pts(e)) {
				ch = true
			}
		}
		return ch
	case *ssa.Extract:
		if rs, ok := st.tuple[x.Tuple]; ok && x.Index < len(rs) {
			return st.add(x, rs[x.Index])
		}
		return st.add(x, st.pts(x.Tuple))
	case *ssa.Field:
		return st.add(x, st.pts(x.X))
	case *ssa.Index:
		return st.add(x, st.pts(x.X))
	case *ssa.UnOp:
		if x.Op == token.MUL && PointerLike(x.Type()) {
			return st.add(x, st.load(st.pts(x.X), x.Type()))
		}
	case *ssa.BinOp:
		// pointer arithmetic through uintptr keeps provenance
		if PointerLike(x.Type()) {
			ch := st.add(x, st.pts(x.X))
			if st.add(x, st.pts(x.Y)) {
				ch = true
			}
			return ch
		}
	case *ssa.Store:
		ch := false
		for r := range st.pts(x.Addr) {
			st.noteWrite(r, x, "")
			if PointerLike(x.Val.Type()) {
				s, ok := st.in.Stored[r]
				if !ok {
					s = Set{}
					st.in.Stored[r] = s
				}
				if s.addAll(st.pts(x.Val)) {
					ch = true
				}
			}
		}
		if len(st.pts(x.Addr)) == 0 {
			st.noteWrite(Root{Kind: Unknown}, x, "store through pointer of unknown provenance")
		}
		return ch
	case *ssa.MapUpdate:
		for r := range st.pts(x.Map) {
			st.noteWrite(r, x, "")
		}
	case *ssa.MakeClosure:
		// the closure value itself carries the provenance of its bindings (it can write through them)
		ch := false
		for _, b := range x.Bindings {
			if st.add(x, st.pts(b)) {
				ch = true
			}
		}
		return ch
	case *ssa.Return:
		rs := st.retOf[f]
		for len(rs) < len(x.Results) {
			rs = append(rs, Set{})
		}
		ch := false
		for i, r := range x.Results {
			if rs[i].addAll(st.pts(r)) {
				ch = true
			}
		}
		st.retOf[f] = rs
		return ch
	case *ssa.Go, *ssa.Send, *ssa.Select, *ssa.Defer:
		found := false
		for _, c := range st.in.Conc {
			if c == ins {
				found = true
			}
		}
		if !found {
			st.in.Conc = append(st.in.Conc, ins)
		}
		if d, ok := ins.(*ssa.Defer); ok {
			return st.call(f, d, d.Common(), nil)
		}
		if g, ok := ins.(*ssa.Go); ok {
			return st.call(f, g, g.Common(), nil)
		}
	case *ssa.Call:
		return st.call(f, x, x.Common(), x)
	}
	return false
}

func externKey(c *ssa.CallCommon) string {
	if c.IsInvoke() {
		t := c.Value.Type().String()
		return "invoke:" + t + "." + c.Method.Name()
	}
	if b, ok := c.Value.(*ssa.Builtin); ok {
		return "builtin:" + b.Name()
	}
	if f := c.StaticCallee(); f != nil {
		return f.String()
	}
	return ""
}

// ExternKey is the table key of an external call ("" if module / unresolved).
func ExternKey(c *ssa.CallCommon) string { return externKey(c) }

func (st *state) noteExtern(key string, ins ssa.Instruction) {
	for _, x := range st.in.Externs[key] {
		if x == ins {
			return
		}
	}
	st.in.Externs[key] = append(st.in.Externs[key], ins)
}

func (st *state) call(f *ssa.Function, ins ssa.Instruction, c *ssa.CallCommon, val *ssa.Call) bool {
	ch := false
	setRet := func(rs []Set) {
		if val == nil {
			return
		}
		if val.Type() == nil {
			return
		}
		if tup, ok := val.Type().(*types.Tuple); ok {
			if tup.Len() == 0 {
				return
			}
			old := st.tuple[val]
			for len(old) < len(rs) {
				old = append(old, Set{})
			}
			for i := range rs {
				if old[i].addAll(rs[i]) {
					ch = true
				}
			}
			st.tuple[val] = old
			for _, s := range rs {
				if st.add(val, s) {
					ch = true
				}
			}
			return
		}
		if len(rs) > 0 && st.add(val, rs[0]) {
			ch = true
		}
	}
	nres := c.Signature().Results().Len()
	// resolve callee
	var callee *ssa.Function
	if !c.IsInvoke() {
		if _, isB := c.Value.(*ssa.Builtin); !isB {
			callee = ssau.ResolveCallee(c)
			if callee == nil {
				found := false
				for _, u := range st.in.Unres {
					if u == ins {
						found = true
					}
				}
				if !found {
					st.in.Unres = append(st.in.Unres, ins)
				}
				// unknown callee: may write anything reachable from its arguments
				for _, a := range c.Args {
					for r := range st.pts(a) {
						st.noteWrite(r, ins, "unresolved call")
					}
				}
				rs := make([]Set, nres)
				for i := range rs {
					rs[i] = Set{Root{Kind: Unknown}: true}
				}
				setRet(rs)
				return ch
			}
		}
	}
	if callee != nil && ssau.InModule(callee) && len(callee.Blocks) > 0 {
		// same family: bind parameters to arguments, results to call value
		inFam := false
		for _, g := range st.fam {
			if g == callee {
				inFam = true
			}
		}
		if inFam {
			for i, p := range callee.Params {
				if i < len(c.Args) && st.add(p, st.pts(c.Args[i])) {
					ch = true
				}
			}
			setRet(st.retOf[callee])
			return ch
		}
		sum := st.a.Of(callee)
		if sum == nil {
			for _, a := range c.Args {
				for r := range st.pts(a) {
					st.noteWrite(r, ins, "recursive call")
				}
			}
			return ch
		}
		mapRoot := func(r Root) Set {
			switch r.Kind {
			case Param:
				if r.Idx < len(c.Args) {
					return st.pts(c.Args[r.Idx])
				}
				return Set{}
			case Global, Unknown:
				return Set{r: true}
			}
			return Set{Root{Kind: Fresh, Ref: ins}: true}
		}
		for _, w := range sum.Writes {
			for r := range mapRoot(w.Root) {
				st.noteWriteT(r, ins, ssau.QName(callee), w.Root.Kind != Param)
			}
		}
		// pointer flows into non-local memory
		for dst, srcs := range sum.Stored {
			if dst.Kind == Alloc || dst.Kind == Fresh {
				continue
			}
			for d := range mapRoot(dst) {
				s, ok := st.in.Stored[d]
				if !ok {
					s = Set{}
					st.in.Stored[d] = s
				}
				for src := range srcs {
					if s.addAll(mapRoot(src)) {
						ch = true
					}
				}
			}
		}
		rs := make([]Set, len(sum.Ret))
		for i, rr := range sum.Ret {
			rs[i] = Set{}
			for r := range rr {
				rs[i].addAll(mapRoot(r))
			}
		}
		for len(rs) < nres {
			rs = append(rs, Set{})
		}
		setRet(rs)
		return ch
	}
	// external / builtin / invoke
	key := externKey(c)
	st.noteExtern(key, ins)
	m, ok := Externs[key]
	args := c.Args
	var recv ssa.Value
	if c.IsInvoke() {
		recv = c.Value
	}
	argSet := func(i int) Set {
		if i == -1 {
			if recv != nil {
				return st.pts(recv)
			}
			return Set{}
		}
		if i < len(args) {
			return st.pts(args[i])
		}
		return Set{}
	}
	if !ok {
		// unmodelled: may write everything it is given
		if recv != nil {
			for r := range st.pts(recv) {
				st.noteWrite(r, ins, "unmodelled external "+key)
			}
		}
		for i := range args {
			for r := range argSet(i) {
				st.noteWrite(r, ins, "unmodelled external "+key)
			}
		}
		rs := make([]Set, nres)
		for i := range rs {
			rs[i] = Set{Root{Kind: Unknown}: true}
		}
		setRet(rs)
		return ch
	}
	for _, wi := range m.Writes {
		for r := range argSet(wi) {
			st.noteWrite(r, ins, key)
		}
	}
	if key == "builtin:copy" && len(args) == 2 {
		// element pointers flow from src memory to dst memory
		for d := range st.pts(args[0]) {
			s, ok := st.in.Stored[d]
			if !ok {
				s = Set{}
				st.in.Stored[d] = s
			}
			if s.addAll(st.load(st.pts(args[1]), nil)) {
				ch = true
			}
		}
	}
	rs := make([]Set, nres)
	for i := range rs {
		rs[i] = Set{}
		switch m.Ret {
		case "fresh":
			rs[i][Root{Kind: Fresh, Ref: ins}] = true
		case "arg0":
			rs[i].addAll(argSet(0))
			rs[i][Root{Kind: Fresh, Ref: ins}] = true
		case "args":
			for j := range args {
				rs[i].addAll(argSet(j))
			}
		}
	}
	setRet(rs)
	return ch
}

// IsInit reports whether fn is a package initialiser.
func IsInit(fn *ssa.Function) bool {
	fn = top(fn)
	return fn.Name() == "init" || strings.HasPrefix(fn.Name(), "init#")
}
