// Package lit evaluates package-level composite literals and constants of the
// analysed source (reading data as written; no repository code runs).
package lit

import (
	"fmt"
	"go/ast"
	"go/constant"
	"go/token"
	"go/types"
	"math/big"

	"golang.org/x/tools/go/packages"
)

// Node is an evaluated literal: an integer, a string or a list.
type Node struct {
	Int  *big.Int
	Str  *string
	List []Node
	Pos  token.Pos
}

// Ints flattens a list of integer nodes.
func (n Node) Ints() ([]*big.Int, error) {
	var out []*big.Int
	for _, e := range n.List {
		if e.Int == nil {
			return nil, fmt.Errorf("non-integer element")
		}
		out = append(out, e.Int)
	}
	return out, nil
}

// FindVar finds the initialiser expression of package-level variable name.
func FindVar(pkg *packages.Package, name string) (ast.Expr, *ast.ValueSpec) {
	for _, f := range pkg.Syntax {
		for _, d := range f.Decls {
			gd, ok := d.(*ast.GenDecl)
			if !ok || gd.Tok != token.VAR {
				continue
			}
			for _, s := range gd.Specs {
				vs := s.(*ast.ValueSpec)
				for i, n := range vs.Names {
					if n.Name == name {
						if i < len(vs.Values) {
							return vs.Values[i], vs
						}
						return nil, vs
					}
				}
			}
		}
	}
	return nil, nil
}

// Const returns the value of package-level constant name.
func Const(pkg *packages.Package, name string) (constant.Value, bool) {
	obj := pkg.Types.Scope().Lookup(name)
	c, ok := obj.(*types.Const)
	if !ok {
		return nil, false
	}
	return c.Val(), true
}

// ConstInt returns an integer constant as big.Int.
func ConstInt(pkg *packages.Package, name string) (*big.Int, bool) {
	v, ok := Const(pkg, name)
	if !ok {
		return nil, false
	}
	return ToBig(v)
}

// ToBig converts an integer constant value.
func ToBig(v constant.Value) (*big.Int, bool) {
	v = constant.ToInt(v)
	if v.Kind() != constant.Int {
		return nil, false
	}
	b, ok := new(big.Int).SetString(v.ExactString(), 10)
	return b, ok
}

// Eval evaluates a composite literal / constant expression into a Node.
func Eval(pkg *packages.Package, e ast.Expr) (Node, error) {
	if tv, ok := pkg.TypesInfo.Types[e]; ok && tv.Value != nil {
		switch tv.Value.Kind() {
		case constant.Int, constant.Float:
			b, ok := ToBig(tv.Value)
			if !ok {
				return Node{}, fmt.Errorf("non-integer constant")
			}
			return Node{Int: b, Pos: e.Pos()}, nil
		case constant.String:
			s := constant.StringVal(tv.Value)
			return Node{Str: &s, Pos: e.Pos()}, nil
		}
	}
	switch x := e.(type) {
	case *ast.ParenExpr:
		return Eval(pkg, x.X)
	case *ast.CompositeLit:
		t := pkg.TypesInfo.TypeOf(x)
		n := Node{Pos: x.Pos()}
		switch u := t.Underlying().(type) {
		case *types.Array:
			n.List = make([]Node, u.Len())
			idx := int64(0)
			filled := make([]bool, u.Len())
			for _, el := range x.Elts {
				v := el
				if kv, ok := el.(*ast.KeyValueExpr); ok {
					ktv := pkg.TypesInfo.Types[kv.Key]
					if ktv.Value == nil {
						return Node{}, fmt.Errorf("non-constant array key")
					}
					k, _ := constant.Int64Val(constant.ToInt(ktv.Value))
					idx = k
					v = kv.Value
				}
				c, err := evalElem(pkg, v, u.Elem())
				if err != nil {
					return Node{}, err
				}
				if idx >= u.Len() {
					return Node{}, fmt.Errorf("index out of range")
				}
				n.List[idx] = c
				filled[idx] = true
				idx++
			}
			for i := range n.List {
				if !filled[i] {
					n.List[i] = zero(u.Elem(), x.Pos())
				}
			}
			return n, nil
		case *types.Slice:
			for _, el := range x.Elts {
				if _, ok := el.(*ast.KeyValueExpr); ok {
					return Node{}, fmt.Errorf("keyed slice literal unsupported")
				}
				c, err := evalElem(pkg, el, u.Elem())
				if err != nil {
					return Node{}, err
				}
				n.List = append(n.List, c)
			}
			return n, nil
		case *types.Struct:
			n.List = make([]Node, u.NumFields())
			filled := make([]bool, u.NumFields())
			for i, el := range x.Elts {
				idx := i
				v := el
				if kv, ok := el.(*ast.KeyValueExpr); ok {
					id, ok := kv.Key.(*ast.Ident)
					if !ok {
						return Node{}, fmt.Errorf("bad struct key")
					}
					idx = -1
					for j := 0; j < u.NumFields(); j++ {
						if u.Field(j).Name() == id.Name {
							idx = j
						}
					}
					if idx < 0 {
						return Node{}, fmt.Errorf("unknown field %s", id.Name)
					}
					v = kv.Value
				}
				c, err := evalElem(pkg, v, u.Field(idx).Type())
				if err != nil {
					return Node{}, err
				}
				n.List[idx] = c
				filled[idx] = true
			}
			for i := range n.List {
				if !filled[i] {
					n.List[i] = zero(u.Field(i).Type(), x.Pos())
				}
			}
			return n, nil
		}
		return Node{}, fmt.Errorf("unsupported composite literal type %s", t)
	}
	return Node{}, fmt.Errorf("unsupported literal expression %T", e)
}

func evalElem(pkg *packages.Package, e ast.Expr, t types.Type) (Node, error) {
	if cl, ok := e.(*ast.CompositeLit); ok && cl.Type == nil {
		// elided type: types.Info still records the type
		return Eval(pkg, cl)
	}
	return Eval(pkg, e)
}

func zero(t types.Type, pos token.Pos) Node {
	switch u := t.Underlying().(type) {
	case *types.Array:
		n := Node{Pos: pos, List: make([]Node, u.Len())}
		for i := range n.List {
			n.List[i] = zero(u.Elem(), pos)
		}
		return n
	case *types.Struct:
		n := Node{Pos: pos, List: make([]Node, u.NumFields())}
		for i := range n.List {
			n.List[i] = zero(u.Field(i).Type(), pos)
		}
		return n
	case *types.Basic:
		if u.Info()&types.IsString != 0 {
			s := ""
			return Node{Str: &s, Pos: pos}
		}
	}
	return Node{Int: new(big.Int), Pos: pos}
}

// Var evaluates the initialiser of a package-level variable.
func Var(pkg *packages.Package, name string) (Node, error) {
	e, vs := FindVar(pkg, name)
	if vs == nil {
		return Node{}, fmt.Errorf("variable %s not found in %s", name, pkg.PkgPath)
	}
	if e == nil {
		obj := pkg.Types.Scope().Lookup(name)
		return zero(obj.Type(), vs.Pos()), nil
	}
	return Eval(pkg, e)
}
