// Package roles resolves the unexported anchor functions of the root package
// by role (call-graph position and signature), not by name (DESIGN App. A).
package roles

import (
	"fmt"
	"go/token"
	"go/types"
	"sort"
	"strings"

	"golang.org/x/tools/go/ssa"

	"verif/internal/load"
	"verif/internal/ssau"
)

// Roles holds the resolved functions. A nil entry has an error in Errs.
type Roles struct {
	Verify, VerifyWithOptions, VerifyBatch, Sign, PrivSign, NewKeyFromSeed, GenerateKey *ssa.Function
	VerifyCore, NoPanic, SignCore, ScMin, SmallOrder, Unwrap, CheckHash, WriteDom2      *ssa.Function
	FailBatch, BoolToRet, Msm, BatchNeutral                                             *ssa.Function
	Errs                                                                                map[string]string
}

func sigString(f *ssa.Function) string {
	return types.TypeString(f.Signature, func(p *types.Package) string { return p.Name() })
}

func isRoot(f *ssa.Function) bool { return ssau.InModule(f) && ssau.PkgSuffix(f) == "" }

func uniq(name string, cands []*ssa.Function, errs map[string]string) *ssa.Function {
	if len(cands) == 1 {
		return cands[0]
	}
	var ns []string
	for _, c := range cands {
		ns = append(ns, ssau.QName(c))
	}
	sort.Strings(ns)
	errs[name] = fmt.Sprintf("role %s resolves to %d functions %v", name, len(cands), ns)
	return nil
}

func callsInto(f *ssa.Function, pkgSuffix string) bool {
	cs, _ := ssau.Callees(f)
	for _, c := range cs {
		if ssau.InModule(c) && ssau.PkgSuffix(c) == pkgSuffix {
			return true
		}
	}
	return false
}

// Resolve resolves all roles on a loaded program.
func Resolve(p *load.Program) *Roles {
	r := &Roles{Errs: map[string]string{}}
	exp := func(n string) *ssa.Function {
		f := ssau.Func(p, "", n)
		if f == nil {
			r.Errs[n] = "exported function " + n + " not found"
		}
		return f
	}
	r.Verify = exp("Verify")
	r.VerifyWithOptions = exp("VerifyWithOptions")
	r.VerifyBatch = exp("VerifyBatch")
	r.Sign = exp("Sign")
	r.NewKeyFromSeed = exp("NewKeyFromSeed")
	r.GenerateKey = exp("GenerateKey")
	r.PrivSign = ssau.Method(p, "", "PrivateKey", "Sign")
	if r.PrivSign == nil {
		r.Errs["PrivateKey.Sign"] = "method PrivateKey.Sign not found"
	}

	filter := func(fs []*ssa.Function, pred func(*ssa.Function) bool) []*ssa.Function {
		var out []*ssa.Function
		for _, f := range fs {
			if isRoot(f) && f.Parent() == nil && pred(f) {
				out = append(out, f)
			}
		}
		return out
	}
	// callsDeep: f calls pkg.name itself or through unexported top-level helpers of the root package (a core function
	// split into helper steps keeps its role)
	var callsDeep func(f *ssa.Function, pkg, name string, depth int) bool
	callsDeep = func(f *ssa.Function, pkg, name string, depth int) bool {
		if ssau.CallsTo(f, pkg, name) {
			return true
		}
		if depth >= 4 {
			return false
		}
		cs, _ := ssau.Callees(f)
		for _, c := range cs {
			if isRoot(c) && c.Parent() == nil && c != f && !token.IsExported(c.Name()) && c.Signature.Recv() == nil && callsDeep(c, pkg, name, depth+1) {
				return true
			}
		}
		return false
	}
	// among several candidates prefer the ones the exported entry point calls directly (the others are its helpers)
	prefer := func(entry *ssa.Function, cands []*ssa.Function) []*ssa.Function {
		if len(cands) < 2 || entry == nil {
			return cands
		}
		direct, _ := ssau.Callees(entry)
		var out []*ssa.Function
		for _, c := range cands {
			for _, d := range direct {
				if c == d {
					out = append(out, c)
				}
			}
		}
		if len(out) > 0 {
			return out
		}
		return cands
	}
	if r.Verify != nil {
		mod, _, _ := ssau.Reachable(r.Verify)
		r.VerifyCore = uniq("verifyCore", prefer(r.Verify, filter(mod, func(f *ssa.Function) bool {
			res := f.Signature.Results()
			return !token.IsExported(f.Name()) && res.Len() == 1 && res.At(0).Type().String() == "bool" && callsDeep(f, "internal/ge25519", "CofactorEqual", 0)
		})), r.Errs)
	}
	if r.VerifyCore != nil {
		mod, _, _ := ssau.Reachable(r.VerifyCore)
		isBytesBool := func(f *ssa.Function) bool {
			return sigString(f) == "func(scalar []byte) bool" || strings.HasSuffix(sigString(f), "[]byte) bool") && f.Signature.Params().Len() == 1
		}
		r.ScMin = uniq("scMin", filter(mod, func(f *ssa.Function) bool { return isBytesBool(f) && !callsInto(f, "internal/ge25519") }), r.Errs)
		r.SmallOrder = uniq("smallOrder", filter(mod, func(f *ssa.Function) bool {
			return isBytesBool(f) && ssau.CallsTo(f, "internal/ge25519", "CofactorMultiply")
		}), r.Errs)
	}
	if r.VerifyWithOptions != nil && r.VerifyCore != nil {
		mod, _, _ := ssau.Reachable(r.VerifyWithOptions)
		r.NoPanic = uniq("noPanic", filter(mod, func(f *ssa.Function) bool {
			res := f.Signature.Results()
			if res.Len() != 2 || res.At(0).Type().String() != "bool" || res.At(1).Type().String() != "error" {
				return false
			}
			cs, _ := ssau.Callees(f)
			for _, c := range cs {
				if c == r.VerifyCore {
					return true
				}
			}
			return false
		}), r.Errs)
	}
	if r.Sign != nil {
		mod, _, _ := ssau.Reachable(r.Sign)
		r.SignCore = uniq("signCore", prefer(r.Sign, filter(mod, func(f *ssa.Function) bool {
			return !token.IsExported(f.Name()) && callsDeep(f, "internal/ge25519", "ScalarmultBaseNiels", 0) && callsDeep(f, "internal/modm", "Contract", 0)
		})), r.Errs)
	}
	// unwrap: method on *Options with 3 results ending in error
	{
		var cands []*ssa.Function
		for _, f := range ssau.AllFuncs(p) {
			if !isRoot(f) || f.Signature.Recv() == nil {
				continue
			}
			rt := f.Signature.Recv().Type().String()
			res := f.Signature.Results()
			if strings.HasSuffix(rt, ".Options") && res.Len() == 3 && res.At(2).Type().String() == "error" && res.At(1).Type().String() == "[]byte" {
				cands = append(cands, f)
			}
		}
		r.Unwrap = uniq("unwrap", cands, r.Errs)
	}
	// checkHash: function with a crypto.Hash parameter and 2 results (flag, error)
	{
		var cands []*ssa.Function
		for _, f := range ssau.AllFuncs(p) {
			if !isRoot(f) || f.Signature.Recv() != nil || f.Parent() != nil {
				continue
			}
			res := f.Signature.Results()
			if res.Len() != 2 || res.At(1).Type().String() != "error" {
				continue
			}
			has := false
			for i := 0; i < f.Signature.Params().Len(); i++ {
				if f.Signature.Params().At(i).Type().String() == "crypto.Hash" {
					has = true
				}
			}
			if has {
				cands = append(cands, f)
			}
		}
		r.CheckHash = uniq("checkHash", cands, r.Errs)
	}
	if r.SignCore != nil {
		mod, _, _ := ssau.Reachable(r.SignCore)
		r.WriteDom2 = uniq("writeDom2", filter(mod, func(f *ssa.Function) bool {
			// (writer, flag, context): an io.Writer, one []byte and one parameter of a named integer type; no results
			ps := f.Signature.Params()
			if ps.Len() != 3 || f.Signature.Results().Len() != 0 || f.Signature.Variadic() {
				return false
			}
			w, b, fl := 0, 0, 0
			for i := 0; i < ps.Len(); i++ {
				t := ps.At(i).Type()
				switch {
				case t.String() == "io.Writer":
					w++
				case t.String() == "[]byte":
					b++
				default:
					if _, named := t.(*types.Named); named {
						if bt, ok := t.Underlying().(*types.Basic); ok && bt.Info()&types.IsInteger != 0 {
							fl++
						}
					}
				}
			}
			return w == 1 && b == 1 && fl == 1
		}), r.Errs)
		// a guard wrapper with the same signature that merely calls the real one is not the role
		if r.WriteDom2 == nil {
			cands := filter(mod, func(f *ssa.Function) bool {
				ps := f.Signature.Params()
				if ps.Len() != 3 || f.Signature.Results().Len() != 0 || f.Signature.Variadic() {
					return false
				}
				hasW := false
				for i := 0; i < ps.Len(); i++ {
					if ps.At(i).Type().String() == "io.Writer" {
						hasW = true
					}
				}
				return hasW
			})
			var leaf []*ssa.Function
			for _, c := range cands {
				wraps := false
				cs, _ := ssau.Callees(c)
				for _, d := range cs {
					for _, o := range cands {
						if d == o && o != c {
							wraps = true
						}
					}
				}
				if !wraps {
					leaf = append(leaf, c)
				}
			}
			if len(leaf) == 1 {
				delete(r.Errs, "writeDom2")
				r.WriteDom2 = leaf[0]
			}
		}
	}
	if r.VerifyBatch != nil {
		var fb, b2r []*ssa.Function
		for _, a := range r.VerifyBatch.AnonFuncs {
			s := sigString(a)
			if s == "func(index int)" || (a.Signature.Params().Len() == 1 && a.Signature.Results().Len() == 0 && a.Signature.Params().At(0).Type().String() == "int") {
				fb = append(fb, a)
			}
			if a.Signature.Params().Len() == 1 && a.Signature.Results().Len() == 1 && a.Signature.Params().At(0).Type().String() == "bool" && a.Signature.Results().At(0).Type().String() == "int" && len(a.FreeVars) == 0 {
				b2r = append(b2r, a)
			}
		}
		// the bool -> summary-bit helper may also be a package-level function called directly by VerifyBatch
		if len(b2r) == 0 {
			for _, blk := range r.VerifyBatch.Blocks {
				for _, in := range blk.Instrs {
					c, ok := in.(*ssa.Call)
					if !ok {
						continue
					}
					a := c.Common().StaticCallee()
					if a == nil || a.Pkg != r.VerifyBatch.Pkg || a.Parent() != nil {
						continue
					}
					if a.Signature.Params().Len() == 1 && a.Signature.Results().Len() == 1 && a.Signature.Params().At(0).Type().String() == "bool" && a.Signature.Results().At(0).Type().String() == "int" {
						dup := false
						for _, x := range b2r {
							if x == a {
								dup = true
							}
						}
						if !dup {
							b2r = append(b2r, a)
						}
					}
				}
			}
		}
		r.FailBatch = uniq("failBatch", fb, r.Errs)
		r.BoolToRet = uniq("boolToRet", b2r, r.Errs)
		mod, _, _ := ssau.Reachable(r.VerifyBatch)
		r.Msm = uniq("msm", filter(mod, func(f *ssa.Function) bool {
			if !ssau.CallsTo(f, "internal/modm", "SubVartime") {
				return false
			}
			hasHeap, hasInt := false, false
			for i := 0; i < f.Signature.Params().Len(); i++ {
				t := f.Signature.Params().At(i).Type().String()
				if strings.HasSuffix(t, ".batchHeap") && strings.HasPrefix(t, "*") {
					hasHeap = true
				}
				if t == "int" {
					hasInt = true
				}
			}
			return hasHeap && hasInt
		}), r.Errs)
		r.BatchNeutral = uniq("batchNeutral", filter(mod, func(f *ssa.Function) bool {
			if f == r.SmallOrder {
				return false
			}
			ps := f.Signature.Params()
			res := f.Signature.Results()
			return ps.Len() == 1 && res.Len() == 1 && res.At(0).Type().String() == "bool" &&
				strings.HasSuffix(ps.At(0).Type().String(), "ge25519.Ge25519") && ssau.CallsTo(f, "internal/ge25519", "CofactorMultiply")
		}), r.Errs)
	}
	return r
}

// Describe lists role → function name for evidence.
func (r *Roles) Describe() map[string]string {
	m := map[string]string{}
	add := func(k string, f *ssa.Function) {
		if f != nil {
			m[k] = ssau.QName(f)
		}
	}
	add("verifyCore", r.VerifyCore)
	add("noPanic", r.NoPanic)
	add("signCore", r.SignCore)
	add("scMin", r.ScMin)
	add("smallOrder", r.SmallOrder)
	add("unwrap", r.Unwrap)
	add("checkHash", r.CheckHash)
	add("writeDom2", r.WriteDom2)
	add("failBatch", r.FailBatch)
	add("boolToRet", r.BoolToRet)
	add("msm", r.Msm)
	add("batchNeutral", r.BatchNeutral)
	return m
}
