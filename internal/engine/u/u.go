// Package u implements engine U: uniformity of unrolled stages. Limb-wise
// arithmetic in this code base is written as manually unrolled chains (one
// source stanza per limb). The final term of output element i is renamed
// relative to i; sub-terms shared by all stages are abstracted as GLOBAL and
// sub-terms that only mention lower limbs (the carry/borrow coming in from the
// previous stage) as PREV. Interior stages of a chain must then all have the
// same signature (sibling agreement: a stanza that deviates from its siblings
// is the bug).
package u

import (
	"fmt"
	"sort"
	"strconv"
	"strings"

	"verif/internal/pt"
)

func constOf(t *pt.Term) (int, bool) {
	if len(t.Args) != 0 || !strings.HasPrefix(t.Op, "#") {
		return 0, false
	}
	n, err := strconv.Atoi(t.Op[1:])
	if err != nil {
		return 0, false
	}
	return n, true
}

// relRange returns the min and max relative index of the array elements mentioned in t (ok=false if none).
func relRange(t *pt.Term, i int, memo map[*pt.Term][3]int, arrays map[string]bool) (lo, hi int, ok bool) {
	if t == nil {
		return 0, 0, false
	}
	if r, have := memo[t]; have {
		return r[0], r[1], r[2] == 1
	}
	if t.Op == "at" && len(t.Args) == 2 {
		if j, isC := constOf(t.Args[1]); isC {
			if arrays != nil && !arrays[t.Args[0].String()] {
				memo[t] = [3]int{0, 0, 0}
				return 0, 0, false
			}
			memo[t] = [3]int{j - i, j - i, 1}
			return j - i, j - i, true
		}
	}
	for _, a := range t.Args {
		l, h, k := relRange(a, i, memo, arrays)
		if !k {
			continue
		}
		if !ok {
			lo, hi, ok = l, h, true
		} else {
			if l < lo {
				lo = l
			}
			if h > hi {
				hi = h
			}
		}
	}
	f := 0
	if ok {
		f = 1
	}
	memo[t] = [3]int{lo, hi, f}
	return
}

type sigger struct {
	noShift bool
	arrays  map[string]bool
	i       int
	global  map[string]bool
	rr      map[*pt.Term][3]int
	memo    map[*pt.Term]string
}

func (s *sigger) sig(t *pt.Term, depth int) string {
	if t == nil {
		return "nil"
	}
	if r, ok := s.memo[t]; ok {
		return r
	}
	var out string
	defer func() { s.memo[t] = out }()
	if t.Op == "at" && len(t.Args) == 2 {
		if j, ok := constOf(t.Args[1]); ok {
			if s.arrays != nil && !s.arrays[t.Args[0].String()] {
				out = "OPQ"
				return out
			}
			out = fmt.Sprintf("%s[%+d]", s.sig(t.Args[0], depth), j-s.i)
			return out
		}
	}
	if len(t.Args) == 0 {
		if _, ok := constOf(t); ok {
			out = "K"
		} else {
			out = t.Op
		}
		return out
	}
	_, hi, hasEl := relRange(t, s.i, s.rr, s.arrays)
	if s.arrays != nil && !hasEl && t.Size() > 1 && mentionsElement(t) {
		// built only from arrays outside the chain (e.g. the partial products feeding a Barrett tail)
		out = "OPQ"
		return out
	}
	if t.Size() > 2 && s.global[t.Key()] {
		out = "GLOBAL"
		return out
	}
	if hasEl && hi < 0 {
		out = "PREV"
		return out
	}
	if depth <= 0 {
		out = "…"
		return out
	}
	parts := make([]string, len(t.Args))
	for k, a := range t.Args {
		if (t.Op == "shl" || t.Op == "shr") && k == 1 {
			if n, ok := constOf(a); ok {
				parts[k] = "#" + strconv.Itoa(n)
				if s.noShift {
					parts[k] = "#s"
				}
				continue
			}
		}
		parts[k] = s.sig(a, depth-1)
	}
	allOpq, anyOpq := true, false
	for _, p := range parts {
		if p == "OPQ" {
			anyOpq = true
		} else if p != "K" && !strings.HasPrefix(p, "#") {
			allOpq = false
		}
	}
	if allOpq && anyOpq {
		out = "OPQ"
		return out
	}
	switch t.Op {
	case "add", "mul", "and", "or", "xor", "eq":
		sort.Strings(parts)
	}
	out = t.Op + "(" + strings.Join(parts, ",") + ")"
	return out
}

// Stages extracts the per-element terms of a final content term cat(byte(t0), byte(t1), ...), looking through
// wrappers such as modm.reduce(...).
func Stages(final *pt.Term) ([]*pt.Term, []string, bool) {
	var wrappers []string
	for final != nil && final.Op != "cat" && len(final.Args) == 1 {
		wrappers = append(wrappers, final.Op)
		final = final.Args[0]
	}
	if final == nil || final.Op != "cat" {
		return nil, wrappers, false
	}
	var out []*pt.Term
	for k, a := range final.Args {
		if a.Op != "byte" || len(a.Args) != 1 {
			// an unwritten tail (the rest of a longer array) may follow the written elements
			if k == len(final.Args)-1 && k > 0 && (a.Op == "sub" || a == pt.Zero) {
				break
			}
			return nil, wrappers, false
		}
		out = append(out, a.Args[0])
	}
	return out, wrappers, true
}

// Classes returns the class letter pattern of all stages (A, B, ... in order of first appearance) and the signatures.
func Classes(stages []*pt.Term, arrays map[string]bool) (string, []string) {
	_, _, sigs := Deviants(stages, 0, len(stages), arrays)
	cls := map[string]int{}
	var pat []byte
	for _, sg := range sigs {
		if _, ok := cls[sg]; !ok {
			cls[sg] = len(cls)
		}
		pat = append(pat, byte('A'+cls[sg]%26))
	}
	return string(pat), sigs
}

// Lonely returns the interior stages (not first, not last) whose class differs from both neighbours.
func Lonely(pattern string) []int {
	var out []int
	if len(pattern) < 4 {
		return nil
	}
	for i := 1; i+1 < len(pattern); i++ {
		if pattern[i] != pattern[i-1] && pattern[i] != pattern[i+1] {
			out = append(out, i)
		}
	}
	return out
}

// OwnConsts lists the integer constants of a stage's own part (outside PREV / GLOBAL sub-terms), shift amounts excluded.
func OwnConsts(stages []*pt.Term, i int, arrays map[string]bool) []int {
	global := globals(stages, arrays)
	rr := map[*pt.Term][3]int{}
	seen := map[*pt.Term]bool{}
	var out []int
	var rec func(t *pt.Term)
	rec = func(t *pt.Term) {
		if t == nil || seen[t] {
			return
		}
		seen[t] = true
		if n, ok := constOf(t); ok {
			out = append(out, n)
			return
		}
		_, hi, hasEl := relRange(t, i, rr, arrays)
		if t.Size() > 2 && global[t.Key()] {
			return
		}
		if hasEl && hi < 0 {
			// the incoming carry/borrow: constants added to it at the boundary belong to this stage
			if t.Op == "add" || t.Op == "subtract" {
				for _, a := range t.Args {
					if n, ok := constOf(a); ok {
						out = append(out, n)
					}
				}
			}
			return
		}
		for k, a := range t.Args {
			if (t.Op == "shl" || t.Op == "shr" || t.Op == "at") && k == 1 {
				continue
			}
			rec(a)
		}
	}
	rec(stages[i])
	sort.Ints(out)
	return out
}

// ShiftOf returns the constant left-shift amounts in a stage's own part.
func ShiftOf(stages []*pt.Term, i int) []int {
	var out []int
	seen := map[*pt.Term]bool{}
	rr := map[*pt.Term][3]int{}
	var rec func(t *pt.Term)
	rec = func(t *pt.Term) {
		if t == nil || seen[t] {
			return
		}
		seen[t] = true
		if _, hi, hasEl := relRange(t, i, rr, nil); hasEl && hi < 0 {
			return
		}
		if t.Op == "shl" && len(t.Args) == 2 {
			if n, ok := constOf(t.Args[1]); ok {
				out = append(out, n)
			}
		}
		for _, a := range t.Args {
			rec(a)
		}
	}
	rec(stages[i])
	sort.Ints(out)
	return out
}

// subKeys collects the keys of all sub-terms of t.
func subKeys(t *pt.Term) map[string]bool {
	m := map[string]bool{}
	t.Walk(func(x *pt.Term) {
		if x.Size() > 2 {
			m[x.Key()] = true
		}
	})
	return m
}

// globals computes the maximal sub-terms common to every stage that mention no chain element or mention the
// highest limb (e.g. the final select mask of a conditional subtraction); prefix sums of the chain are excluded.
func globals(stages []*pt.Term, arrays map[string]bool) map[string]bool {
	n := len(stages)
	if n < 2 {
		return map[string]bool{}
	}
	common := subKeys(stages[0])
	for i := 1; i < n; i++ {
		ks := subKeys(stages[i])
		for k := range common {
			if !ks[k] {
				delete(common, k)
			}
		}
	}
	terms := map[string]*pt.Term{}
	stages[0].Walk(func(x *pt.Term) {
		if common[x.Key()] {
			terms[x.Key()] = x
		}
	})
	out := map[string]bool{}
	for k, t := range terms {
		rr := map[*pt.Term][3]int{}
		_, hi, has := relRange(t, 0, rr, arrays)
		if has && hi != n-1 {
			continue
		}
		out[k] = true
	}
	for k, t := range terms {
		if !out[k] {
			continue
		}
		for k2, t2 := range terms {
			if k2 != k && out[k2] && t2.Size() > t.Size() {
				contained := false
				t2.Walk(func(x *pt.Term) {
					if x.Key() == k {
						contained = true
					}
				})
				if contained {
					delete(out, k)
					break
				}
			}
		}
	}
	return out
}

// Deviants returns the indices in [from,to) whose signature differs from the most common one.
func Deviants(stages []*pt.Term, from, to int, arrays map[string]bool) (dev []int, ref string, sigs []string) {
	return deviants(stages, from, to, arrays, false)
}

func deviants(stages []*pt.Term, from, to int, arrays map[string]bool, noShift bool) (dev []int, ref string, sigs []string) {
	if to > len(stages) {
		to = len(stages)
	}
	global := globals(stages, arrays)
	count := map[string]int{}
	sigs = make([]string, len(stages))
	for i := from; i < to; i++ {
		s := &sigger{noShift: noShift, arrays: arrays, i: i, global: global, rr: map[*pt.Term][3]int{}, memo: map[*pt.Term]string{}}
		sigs[i] = s.sig(stages[i], 14)
		count[sigs[i]]++
	}
	best := 0
	for s, c := range count {
		if c > best || (c == best && s < ref) {
			best, ref = c, s
		}
	}
	for i := from; i < to; i++ {
		if sigs[i] != ref {
			dev = append(dev, i)
		}
	}
	return
}

// ClassesNoShift is Classes with shift amounts abstracted.
func ClassesNoShift(stages []*pt.Term, arrays map[string]bool) (string, []string) {
	_, _, sigs := deviants(stages, 0, len(stages), arrays, true)
	cls := map[string]int{}
	var pat []byte
	for _, sg := range sigs {
		if _, ok := cls[sg]; !ok {
			cls[sg] = len(cls)
		}
		pat = append(pat, byte('A'+cls[sg]%26))
	}
	return string(pat), sigs
}

// Links returns, for each stage i >= 1, the signature (relative to stage i-1) of what stage i takes from the
// previous stages: its maximal sub-terms that mention lower limbs only (the incoming carry / borrow).
func Links(stages []*pt.Term, arrays map[string]bool) []string {
	l, _ := LinksShifts(stages, arrays)
	return l
}

// LinksShifts also returns, per stage, the right-shift amount at the root of the incoming carry (-1 if none).
func LinksShifts(stages []*pt.Term, arrays map[string]bool) ([]string, []int) {
	global := globals(stages, arrays)
	out := make([]string, len(stages))
	shifts := make([]int, len(stages))
	for i := range shifts {
		shifts[i] = -1
	}
	for i := 1; i < len(stages); i++ {
		rr := map[*pt.Term][3]int{}
		seen := map[*pt.Term]bool{}
		found := map[string]bool{}
		prev := &sigger{noShift: true, arrays: arrays, i: i - 1, global: global, rr: map[*pt.Term][3]int{}, memo: map[*pt.Term]string{}}
		var rec func(t *pt.Term)
		rec = func(t *pt.Term) {
			if t == nil || seen[t] || len(t.Args) == 0 {
				return
			}
			seen[t] = true
			if t.Size() > 2 && global[t.Key()] {
				return
			}
			if t.Op == "at" {
				return
			}
			if _, hi, has := relRange(t, i, rr, arrays); has && hi < 0 {
				found[prev.sig(t, 14)] = true
				if t.Op == "shr" && len(t.Args) == 2 {
					if n, ok := constOf(t.Args[1]); ok {
						shifts[i] = n
					}
				}
				return
			}
			for _, a := range t.Args {
				rec(a)
			}
		}
		rec(stages[i])
		var ls []string
		for k := range found {
			ls = append(ls, k)
		}
		sort.Strings(ls)
		out[i] = strings.Join(ls, " ; ")
	}
	return out, shifts
}

// mentionsElement reports whether t contains any array element at a constant index.
func mentionsElement(t *pt.Term) bool {
	return t.Contains(func(x *pt.Term) bool {
		if x.Op == "at" && len(x.Args) == 2 {
			_, ok := constOf(x.Args[1])
			return ok
		}
		return false
	})
}
