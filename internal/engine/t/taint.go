// Package t implements engine T: secret-taint analysis for the constant-time
// discipline. Context-sensitive (callees are re-analysed per abstract argument
// taint vector, memoised), flow-insensitive inside a function family,
// object-level taint on the provenance roots of package mem. A sink is a
// construct whose timing or address trace depends on a tainted value.
package t

import (
	"fmt"
	"go/token"
	"go/types"
	"sort"
	"strings"

	"golang.org/x/tools/go/ssa"

	"verif/internal/mem"
	"verif/internal/ssau"
)

// Sink is one violation of the discipline.
type Sink struct {
	Kind  string // branch | index | slice-bound | vartime-call | division | shift | lookup | unresolved
	Fn    *ssa.Function
	Instr ssa.Instruction
	Chain []string
	What  string
}

type ctxKey struct {
	fn         *ssa.Function
	valT, conT uint64
	secretRead bool
}

type result struct {
	retT    []bool
	outCont uint64 // params whose reachable content may become tainted
	retCont []bool // for pointer-like results: content tainted
}

// Analyzer runs taint analyses over one program.
type Analyzer struct {
	Mem      *mem.Analysis
	memo     map[ctxKey]*result
	busy     map[ctxKey]bool
	Sinks    []Sink
	sinkSeen map[string]bool
	Contexts int
	Values   int
}

// New creates an analyzer.
func New(m *mem.Analysis) *Analyzer {
	return &Analyzer{Mem: m, memo: map[ctxKey]*result{}, busy: map[ctxKey]bool{}, sinkSeen: map[string]bool{}}
}

func top(fn *ssa.Function) *ssa.Function {
	for fn.Parent() != nil {
		fn = fn.Parent()
	}
	return fn
}

func family(fn *ssa.Function) []*ssa.Function {
	out := []*ssa.Function{fn}
	for _, c := range fn.AnonFuncs {
		out = append(out, family(c)...)
	}
	return out
}

func (a *Analyzer) sink(kind string, fn *ssa.Function, in ssa.Instruction, chain []string, what string) {
	key := fmt.Sprintf("%s|%p", kind, in)
	if a.sinkSeen[key] {
		return
	}
	a.sinkSeen[key] = true
	a.Sinks = append(a.Sinks, Sink{Kind: kind, Fn: fn, Instr: in, Chain: append([]string{}, chain...), What: what})
}

// Entry analyses fn with the given parameters' contents (and values) secret.
func (a *Analyzer) Entry(fn *ssa.Function, contentSecret, valueSecret []int, secretRead bool) {
	var v, c uint64
	for _, i := range contentSecret {
		c |= 1 << uint(i)
	}
	for _, i := range valueSecret {
		v |= 1 << uint(i)
	}
	a.analyse(ctxKey{fn: top(fn), valT: v, conT: c, secretRead: secretRead}, []string{ssau.QName(fn)})
}

type fstate struct {
	a     *Analyzer
	key   ctxKey
	info  *mem.Info
	vt    map[ssa.Value]bool
	ct    map[mem.Root]bool
	tup   map[ssa.Value][]bool
	retT  map[*ssa.Function][]bool
	chain []string
	fam   []*ssa.Function
}

func (s *fstate) val(v ssa.Value) bool {
	switch v.(type) {
	case *ssa.Const, *ssa.Global, *ssa.Function, *ssa.Builtin:
		return false
	}
	return s.vt[v]
}

func (s *fstate) cont(v ssa.Value) bool {
	switch x := v.(type) {
	case *ssa.Global:
		return s.ct[mem.Root{Kind: mem.Global, Ref: x}]
	case *ssa.Const, *ssa.Function, *ssa.Builtin:
		return false
	}
	for r := range s.info.Pts[v] {
		if s.ct[r] {
			return true
		}
	}
	return false
}

func (s *fstate) setV(v ssa.Value, t bool) bool {
	if t && !s.vt[v] {
		s.vt[v] = true
		return true
	}
	return false
}

func (s *fstate) taintRoots(v ssa.Value) bool {
	ch := false
	roots := s.info.Pts[v]
	if g, ok := v.(*ssa.Global); ok {
		roots = mem.Set{mem.Root{Kind: mem.Global, Ref: g}: true}
	}
	for r := range roots {
		if !s.ct[r] {
			s.ct[r] = true
			ch = true
		}
	}
	return ch
}

func (a *Analyzer) analyse(key ctxKey, chain []string) *result {
	if r, ok := a.memo[key]; ok {
		return r
	}
	if a.busy[key] {
		return &result{}
	}
	a.busy[key] = true
	defer func() { a.busy[key] = false }()
	a.Contexts++
	info := a.Mem.Of(key.fn)
	s := &fstate{a: a, key: key, info: info, vt: map[ssa.Value]bool{}, ct: map[mem.Root]bool{}, tup: map[ssa.Value][]bool{}, retT: map[*ssa.Function][]bool{}, chain: chain, fam: family(key.fn)}
	for i, p := range key.fn.Params {
		if key.valT&(1<<uint(i)) != 0 {
			s.vt[p] = true
		}
		if key.conT&(1<<uint(i)) != 0 {
			s.ct[mem.Root{Kind: mem.Param, Idx: i}] = true
		}
	}
	for iter := 0; iter < 60; iter++ {
		ch := false
		for _, f := range s.fam {
			for _, b := range f.Blocks {
				for _, in := range b.Instrs {
					if s.step(f, in) {
						ch = true
					}
				}
			}
		}
		if !ch {
			break
		}
	}
	a.Values += len(s.vt)
	res := &result{retT: s.retT[key.fn]}
	for i := range key.fn.Params {
		if s.ct[mem.Root{Kind: mem.Param, Idx: i}] {
			res.outCont |= 1 << uint(i)
		}
	}
	// content taint of pointer-like results
	for i, rs := range info.Ret {
		t := false
		for r := range rs {
			if s.ct[r] {
				t = true
			}
		}
		for len(res.retCont) <= i {
			res.retCont = append(res.retCont, false)
		}
		res.retCont[i] = t
	}
	a.memo[key] = res
	return res
}

func (s *fstate) step(f *ssa.Function, in ssa.Instruction) bool {
	a := s.a
	switch x := in.(type) {
	case *ssa.BinOp:
		t := s.val(x.X) || s.val(x.Y)
		if t {
			switch x.Op {
			case token.QUO, token.REM:
				if _, isConst := x.Y.(*ssa.Const); isConst {
					break // division by a constant compiles to multiply/shift: not variable latency
				}
				a.sink("division", f, in, s.chain, "division/remainder with a secret-dependent operand (variable latency)")
			case token.SHL, token.SHR:
				if s.val(x.Y) {
					a.sink("shift", f, in, s.chain, "shift by a secret-dependent amount")
				}
			}
		}
		return s.setV(x, t)
	case *ssa.UnOp:
		if x.Op == token.MUL {
			if s.val(x.X) {
				// loading through a secret-dependent address: already reported at the address computation
			}
			return s.setV(x, s.val(x.X) || s.cont(x.X))
		}
		return s.setV(x, s.val(x.X))
	case *ssa.Convert:
		return s.setV(x, s.val(x.X))
	case *ssa.ChangeType:
		return s.setV(x, s.val(x.X))
	case *ssa.ChangeInterface:
		return s.setV(x, s.val(x.X))
	case *ssa.MakeInterface:
		return s.setV(x, s.val(x.X))
	case *ssa.SliceToArrayPointer:
		return s.setV(x, s.val(x.X))
	case *ssa.TypeAssert:
		return s.setV(x, s.val(x.X))
	case *ssa.Phi:
		t := false
		for _, e := range x.Edges {
			t = t || s.val(e)
		}
		return s.setV(x, t)
	case *ssa.Extract:
		if ts, ok := s.tup[x.Tuple]; ok && x.Index < len(ts) {
			return s.setV(x, ts[x.Index])
		}
		return s.setV(x, s.val(x.Tuple))
	case *ssa.FieldAddr:
		return s.setV(x, s.val(x.X))
	case *ssa.Field:
		return s.setV(x, s.val(x.X))
	case *ssa.IndexAddr:
		if s.val(x.Index) {
			a.sink("index", f, in, s.chain, "memory address computed from a secret-dependent index")
		}
		return s.setV(x, s.val(x.X) || s.val(x.Index))
	case *ssa.Index:
		if s.val(x.Index) {
			a.sink("index", f, in, s.chain, "array element selected by a secret-dependent index")
		}
		return s.setV(x, s.val(x.X) || s.val(x.Index))
	case *ssa.Lookup:
		if s.val(x.Index) {
			a.sink("lookup", f, in, s.chain, "map/string lookup with a secret-dependent key")
		}
		return s.setV(x, s.val(x.X) || s.val(x.Index))
	case *ssa.Slice:
		t := s.val(x.X)
		for _, b := range []ssa.Value{x.Low, x.High, x.Max} {
			if b != nil && s.val(b) {
				a.sink("slice-bound", f, in, s.chain, "slice bound computed from a secret")
				t = true
			}
		}
		return s.setV(x, t)
	case *ssa.Store:
		if s.val(x.Addr) {
			// address taint was reported where the address was formed
		}
		if s.val(x.Val) || (mem.PointerLike(x.Val.Type()) && false) {
			return s.taintRoots(x.Addr)
		}
		// storing a pointer to tainted memory does not taint the cell's own bytes
	case *ssa.If:
		if s.val(x.Cond) {
			a.sink("branch", f, in, s.chain, "branch on a secret-dependent condition")
		}
	case *ssa.Return:
		rs := s.retT[f]
		for len(rs) < len(x.Results) {
			rs = append(rs, false)
		}
		ch := false
		for i, r := range x.Results {
			if s.val(r) && !rs[i] {
				rs[i] = true
				ch = true
			}
		}
		s.retT[f] = rs
		return ch
	case *ssa.Panic:
		if s.val(x.X) {
			a.sink("branch", f, in, s.chain, "panic value depends on a secret")
		}
	case *ssa.MakeClosure:
	case *ssa.Call:
		return s.call(f, x)
	case *ssa.Defer:
	case *ssa.Go:
	case *ssa.MapUpdate:
		if s.val(x.Key) {
			a.sink("lookup", f, in, s.chain, "map update with a secret-dependent key")
		}
	}
	return false
}

func argTaint(s *fstate, v ssa.Value) bool { return s.val(v) || s.cont(v) }

func (s *fstate) call(f *ssa.Function, x *ssa.Call) bool {
	a := s.a
	c := x.Common()
	ch := false
	setRes := func(ts []bool) {
		if tup, ok := x.Type().(*types.Tuple); ok {
			if tup.Len() == 0 {
				return
			}
			old := s.tup[x]
			for len(old) < len(ts) {
				old = append(old, false)
			}
			for i := range ts {
				if ts[i] && !old[i] {
					old[i] = true
					ch = true
				}
			}
			s.tup[x] = old
			return
		}
		if len(ts) > 0 && s.setV(x, ts[0]) {
			ch = true
		}
	}
	nres := c.Signature().Results().Len()
	var callee *ssa.Function
	if !c.IsInvoke() {
		if _, isB := c.Value.(*ssa.Builtin); !isB {
			callee = ssau.ResolveCallee(c)
			if callee == nil {
				any := false
				for _, ar := range c.Args {
					any = any || argTaint(s, ar)
				}
				if any {
					a.sink("unresolved", f, x, s.chain, "secret data passed to an unresolved dynamic call")
				}
				return false
			}
		}
	}
	if callee != nil && ssau.InModule(callee) && len(callee.Blocks) > 0 {
		for _, g := range s.fam {
			if g == callee {
				// closure of this family: bind parameter value taints
				for i, p := range callee.Params {
					if i < len(c.Args) && s.setV(p, s.val(c.Args[i])) {
						ch = true
					}
				}
				setRes(s.retT[callee])
				return ch
			}
		}
		var v, ct uint64
		for i, ar := range c.Args {
			if i >= 64 {
				break
			}
			if s.val(ar) {
				v |= 1 << uint(i)
			}
			if s.cont(ar) {
				ct |= 1 << uint(i)
			}
		}
		key := ctxKey{fn: top(callee), valT: v, conT: ct, secretRead: s.key.secretRead}
		var res *result
		if v == 0 && ct == 0 && !s.key.secretRead {
			// nothing secret flows in: nothing secret can come out and no sink can fire
			res = &result{retT: make([]bool, nres)}
		} else {
			res = a.analyse(key, append(append([]string{}, s.chain...), ssau.QName(callee)))
		}
		for i, ar := range c.Args {
			if i < 64 && res.outCont&(1<<uint(i)) != 0 {
				if s.taintRoots(ar) {
					ch = true
				}
			}
		}
		ts := make([]bool, nres)
		for i := range ts {
			if i < len(res.retT) {
				ts[i] = res.retT[i]
			}
		}
		// pointer-like results with tainted content: taint their roots in the caller
		if len(res.retCont) > 0 {
			for i, t := range res.retCont {
				_ = i
				if t {
					if s.taintRoots(x) {
						ch = true
					}
				}
			}
		}
		setRes(ts)
		return ch
	}
	// external, builtin, invoke, assembly
	key := mem.ExternKey(c)
	m, known := mem.Externs[key]
	any := false
	for _, ar := range c.Args {
		any = any || argTaint(s, ar)
	}
	recvT := false
	if c.IsInvoke() {
		recvT = argTaint(s, c.Value)
	}
	switch key {
	case "builtin:len", "builtin:cap":
		setRes([]bool{s.val(c.Args[0])})
		return ch
	case "crypto/subtle.ConstantTimeCompare":
		// the one-bit verdict is the purpose of the call: declassified (DESIGN section 4 T)
		setRes([]bool{false})
		return ch
	case "io.ReadFull":
		if s.key.secretRead {
			if s.taintRoots(c.Args[1]) {
				ch = true
			}
		}
		setRes([]bool{false, false})
		return ch
	}
	if !known {
		if any || recvT {
			a.sink("vartime-call", f, x, s.chain, "secret data passed to unmodelled external "+key)
		}
		return ch
	}
	if m.VarTime && any {
		a.sink("vartime-call", f, x, s.chain, "secret data passed to variable-time primitive "+key)
	}
	// effects: written arguments receive the taint of all inputs
	in := any || recvT
	for _, wi := range m.Writes {
		if !in {
			break
		}
		if wi == -1 {
			if c.IsInvoke() && s.taintRoots(c.Value) {
				ch = true
			}
		} else if wi < len(c.Args) {
			if s.taintRoots(c.Args[wi]) {
				ch = true
			}
		}
	}
	// results
	ts := make([]bool, nres)
	for i := 0; i < nres; i++ {
		rt := c.Signature().Results().At(i).Type()
		if mem.PointerLike(rt) {
			// content of the returned object
			if in && s.taintRoots(x) {
				ch = true
			}
			ts[i] = false
		} else {
			ts[i] = in
		}
	}
	if key == "invoke:hash.Hash.Write" || key == "invoke:io.Writer.Write" {
		ts = []bool{false, false} // n and err of a hash write are public
	}
	setRes(ts)
	return ch
}

// Describe renders a sink.
func (k Sink) Describe() string {
	return fmt.Sprintf("%s: %s [%s]", k.Kind, k.What, strings.Join(k.Chain, " -> "))
}

// SortSinks orders sinks deterministically.
func SortSinks(ss []Sink) {
	sort.Slice(ss, func(i, j int) bool {
		if ss[i].Instr.Pos() != ss[j].Instr.Pos() {
			return ss[i].Instr.Pos() < ss[j].Instr.Pos()
		}
		return ss[i].Kind < ss[j].Kind
	})
}
