// Package z is the Plan-9 assembly linter for the one assembly routine of the
// module (the constant-time table selector): instruction whitelist without
// branches, constant addressing relative to the two pointer arguments, and the
// documented constants.
package z

import (
	"fmt"
	"os"
	"regexp"
	"sort"
	"strconv"
	"strings"
)

// Finding is one lint failure.
type Finding struct {
	Line int
	Msg  string
}

// Result of linting.
type Result struct {
	Instrs   int
	Loads    []int // offsets loaded from the table pointer
	Stores   []int // offsets stored through the output pointer
	Compares []int // immediate constants the selector index is compared with
	Consts   map[string]bool
	Findings []Finding
	Texts    []string
}

var allowed = map[string]bool{
	"MOVQ": true, "MOVD": true, "MOVOU": true, "PSHUFD": true, "PXOR": true, "PCMPEQL": true, "PAND": true, "POR": true,
	"SHRQ": true, "ANDQ": true, "SUBQ": true, "CMPQ": true, "CMOVQEQ": true, "XORQ": true, "RET": true, "PANDN": true, "MOVO": true,
}

var memRe = regexp.MustCompile(`^(-?(?:0x[0-9a-fA-F]+|\d+))?\((\w+)\)$`)
var fpRe = regexp.MustCompile(`^(\w+)\+(\d+)\(FP\)$`)

func parseInt(s string) (int64, bool) {
	s = strings.TrimPrefix(s, "$")
	v, err := strconv.ParseInt(s, 0, 64)
	if err != nil {
		u, err2 := strconv.ParseUint(s, 0, 64)
		if err2 != nil {
			return 0, false
		}
		return int64(u), true
	}
	return v, true
}

// Lint checks the assembly file. tablePtr/outPtr are the FP argument names of the two pointers.
func Lint(path string) (*Result, error) {
	b, err := os.ReadFile(path)
	if err != nil {
		return nil, err
	}
	res := &Result{Consts: map[string]bool{}}
	fail := func(line int, f string, a ...interface{}) {
		res.Findings = append(res.Findings, Finding{line, fmt.Sprintf(f, a...)})
	}
	regWrites := map[string]int{}
	ptrOf := map[string]string{} // register -> FP arg name it was loaded from
	lastAX := int64(-1)
	inText := false
	for ln, raw := range strings.Split(string(b), "\n") {
		line := raw
		if i := strings.Index(line, "//"); i >= 0 {
			line = line[:i]
		}
		line = strings.TrimSpace(line)
		if line == "" || strings.HasPrefix(line, "#") {
			continue
		}
		fields := strings.Fields(line)
		op := fields[0]
		rest := strings.TrimSpace(strings.TrimPrefix(line, op))
		var args []string
		if rest != "" {
			for _, a := range strings.Split(rest, ",") {
				args = append(args, strings.TrimSpace(a))
			}
		}
		if op == "TEXT" {
			inText = true
			res.Texts = append(res.Texts, rest)
			continue
		}
		if !inText {
			fail(ln+1, "instruction outside TEXT: %s", line)
			continue
		}
		res.Instrs++
		if !allowed[op] {
			fail(ln+1, "instruction %s is not in the branch-free whitelist (jumps, calls, loops, divisions and string ops are forbidden)", op)
			continue
		}
		if op == "RET" {
			continue
		}
		dst := ""
		if len(args) > 0 {
			dst = args[len(args)-1]
		}
		// memory operands
		for ai, a := range args {
			if m := fpRe.FindStringSubmatch(a); m != nil {
				if ai == len(args)-1 {
					fail(ln+1, "store to an argument slot: %s", line)
				}
				continue
			}
			if m := memRe.FindStringSubmatch(a); m != nil {
				off := int64(0)
				if m[1] != "" {
					off, _ = parseInt(m[1])
				}
				base := m[2]
				src, isPtr := ptrOf[base]
				if !isPtr {
					fail(ln+1, "memory operand %s uses register %s which is not one of the two pointer arguments", a, base)
					continue
				}
				isStore := ai == len(args)-1 && op != "CMPQ"
				if isStore {
					if src != "t" {
						fail(ln+1, "store through %s (the %s argument): only the output may be written", base, src)
					}
					res.Stores = append(res.Stores, int(off))
				} else {
					if src != "table" {
						fail(ln+1, "load through %s (the %s argument): only the table may be read", base, src)
					}
					res.Loads = append(res.Loads, int(off))
				}
				continue
			}
			if strings.Contains(a, "(") {
				fail(ln+1, "unrecognised (possibly indexed) memory operand %s", a)
			}
		}
		// immediates
		for _, a := range args {
			if strings.HasPrefix(a, "$") {
				if v, ok := parseInt(a); ok {
					res.Consts[fmt.Sprintf("%#x", uint64(v))] = true
				}
			}
		}
		// register writes: pointer registers must be written exactly once, from the FP arguments
		if dst != "" && !strings.Contains(dst, "(") && op != "CMPQ" {
			regWrites[dst]++
			if op == "MOVQ" && len(args) == 2 {
				if m := fpRe.FindStringSubmatch(args[0]); m != nil && (m[1] == "table" || m[1] == "t") {
					ptrOf[dst] = m[1]
				} else if _, was := ptrOf[dst]; was {
					fail(ln+1, "pointer register %s is overwritten", dst)
				}
				if dst == "AX" {
					if v, ok := parseInt(args[0]); ok && strings.HasPrefix(args[0], "$") {
						lastAX = v
					} else {
						lastAX = -1
					}
				}
			} else if _, was := ptrOf[dst]; was {
				fail(ln+1, "pointer register %s is modified by %s", dst, op)
			}
		}
		if op == "PCMPEQL" {
			// compare constant = last immediate broadcast through AX
			res.Compares = append(res.Compares, int(lastAX))
		}
	}
	for r, src := range ptrOf {
		if regWrites[r] != 1 {
			fail(0, "pointer register %s (from %s) is written %d times", r, src, regWrites[r])
		}
	}
	sort.Ints(res.Loads)
	sort.Ints(res.Stores)
	return res, nil
}

// CheckSelector checks the selector-specific layout: compare constants 0..8, table loads 96*(k-1)+16*j, 15 output limbs.
func CheckSelector(res *Result, twoP0, twoP1234, mask51 uint64) []string {
	var out []string
	var cmp []int
	for _, c := range res.Compares {
		if c >= 0 { // compares against a non-immediate (the sign broadcast of the conditional swap) are not table selections
			cmp = append(cmp, c)
		}
	}
	sort.Ints(cmp)
	want := []int{0, 1, 2, 3, 4, 5, 6, 7, 8}
	if fmt.Sprint(cmp) != fmt.Sprint(want) {
		out = append(out, fmt.Sprintf("selector compares the index with %v, want each of 0..8 exactly once", cmp))
	}
	var wl []int
	for k := 1; k <= 8; k++ {
		for j := 0; j < 6; j++ {
			wl = append(wl, 96*(k-1)+16*j)
		}
	}
	if fmt.Sprint(res.Loads) != fmt.Sprint(wl) {
		out = append(out, fmt.Sprintf("table loads at offsets %v, want 96*(k-1)+16*j for k=1..8, j=0..5", res.Loads))
	}
	var ws []int
	for i := 0; i < 15; i++ {
		ws = append(ws, 8*i)
	}
	if fmt.Sprint(res.Stores) != fmt.Sprint(ws) {
		out = append(out, fmt.Sprintf("output stores at offsets %v, want 0,8,..,112 (15 limbs)", res.Stores))
	}
	for name, v := range map[string]uint64{"2p limb 0": twoP0, "2p limbs 1-4": twoP1234, "51-bit mask": mask51} {
		if !res.Consts[fmt.Sprintf("%#x", v)] {
			out = append(out, fmt.Sprintf("constant %s = %#x (from the Go field package) does not occur in the assembly", name, v))
		}
	}
	return out
}
