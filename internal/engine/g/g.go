// Package g implements engine G: decision-structure rules. The paths of a role
// function (from the path/term engine) are compared with a specification given
// as a function from *worlds* to the expected terminal. A world fixes the
// values every guard may depend on: lengths (one representative per class),
// individual bytes, and the truth of the opaque predicate atoms (calls by
// role). Atoms are evaluated semantically on the world, so the spelling and
// order of checks does not matter; an atom the world cannot evaluate is an
// unrecognised guard (fail closed).
package g

import (
	"fmt"
	"sort"
	"strconv"
	"strings"

	"verif/internal/pt"
)

// World is one valuation of everything guards may depend on.
type World struct {
	Ints  map[string]int  // e.g. "len(P0)" -> 32, "P3" -> 255
	Bools map[string]bool // opaque predicate atoms by canonical key
	Desc  string
}

// ErrUnrecognised marks an atom the world cannot evaluate.
type ErrUnrecognised struct{ Atom string }

func (e *ErrUnrecognised) Error() string { return "unrecognised guard atom: " + e.Atom }

// ErrOutOfRange marks an index beyond a length fixed by the world.
type ErrOutOfRange struct{ What string }

func (e *ErrOutOfRange) Error() string { return "index out of range in this world: " + e.What }

func constInt(t *pt.Term) (int, bool) {
	if len(t.Args) != 0 || !strings.HasPrefix(t.Op, "#") {
		return 0, false
	}
	n, err := strconv.Atoi(t.Op[1:])
	if err != nil {
		return 0, false
	}
	return n, true
}

// EvalInt evaluates an integer term on a world.
func EvalInt(t *pt.Term, w *World) (int, error) {
	if n, ok := constInt(t); ok {
		return n, nil
	}
	key := t.String()
	if v, ok := w.Ints[key]; ok {
		return v, nil
	}
	switch t.Op {
	case "and", "or", "xor", "add", "subtract", "mul", "shl", "shr":
		if len(t.Args) == 2 {
			a, err := EvalInt(t.Args[0], w)
			if err != nil {
				return 0, err
			}
			b, err := EvalInt(t.Args[1], w)
			if err != nil {
				return 0, err
			}
			switch t.Op {
			case "and":
				return a & b, nil
			case "or":
				return a | b, nil
			case "xor":
				return a ^ b, nil
			case "add":
				return a + b, nil
			case "subtract":
				return a - b, nil
			case "mul":
				return a * b, nil
			case "shl":
				return a << uint(b), nil
			case "shr":
				return a >> uint(b), nil
			}
		}
	case "at":
		// X[i]: a byte of a parameter; needs i < len(X)
		if len(t.Args) == 2 {
			if i, ok := constInt(t.Args[1]); ok {
				if n, ok := w.Ints["len("+t.Args[0].String()+")"]; ok && i >= n {
					return 0, &ErrOutOfRange{key}
				}
			}
		}
	}
	if strings.HasPrefix(t.Op, "conv:") && len(t.Args) == 1 {
		return EvalInt(t.Args[0], w)
	}
	return 0, &ErrUnrecognised{key}
}

// EvalBool evaluates a boolean atom (already normalised) on a world.
func EvalBool(t *pt.Term, w *World) (bool, error) {
	key := t.String()
	if v, ok := w.Bools[key]; ok {
		return v, nil
	}
	switch t.Op {
	case "#true":
		return true, nil
	case "#false":
		return false, nil
	case "not":
		v, err := EvalBool(t.Args[0], w)
		return !v, err
	case "eq", "lt", "gt", "ne", "le", "ge":
		if len(t.Args) == 2 {
			a, err := EvalInt(t.Args[0], w)
			if err != nil {
				return false, err
			}
			b, err := EvalInt(t.Args[1], w)
			if err != nil {
				return false, err
			}
			switch t.Op {
			case "eq":
				return a == b, nil
			case "ne":
				return a != b, nil
			case "lt":
				return a < b, nil
			case "gt":
				return a > b, nil
			case "le":
				return a <= b, nil
			case "ge":
				return a >= b, nil
			}
		}
	}
	return false, &ErrUnrecognised{key}
}

// Terminal is an expected or observed exit.
type Terminal struct {
	Kind    string            // "return" | "panic"
	Results []string          // canonical result terms; "*" matches anything
	Finals  map[string]string // expected final content of written parameter objects (P<i>), optional
}

func (t Terminal) String() string {
	s := t.Kind + " " + strings.Join(t.Results, ", ")
	for k, v := range t.Finals {
		s += " [" + k + " := " + v + "]"
	}
	return s
}

// Match compares an observed path exit with the expectation.
func (t Terminal) Match(p *pt.Path) bool {
	if p.Kind != t.Kind {
		return false
	}
	if t.Kind == "panic" {
		return true
	}
	for k, v := range t.Finals {
		got, ok := p.Finals[k]
		if v == "" {
			if ok {
				return false // must not be written
			}
			continue
		}
		if !ok || got.String() != v {
			return false
		}
	}
	if len(t.Results) != len(p.Results) {
		return false
	}
	for i, r := range t.Results {
		if r == "*" {
			continue
		}
		if strings.HasPrefix(r, "~") { // prefix match
			if !strings.HasPrefix(p.Results[i].String(), r[1:]) {
				return false
			}
			continue
		}
		if strings.HasPrefix(r, "!") { // must differ from
			if p.Results[i].String() == r[1:] {
				return false
			}
			continue
		}
		if p.Results[i].String() != r {
			return false
		}
	}
	return true
}

// Mismatch describes a world on which code and specification disagree.
type Mismatch struct {
	World    string
	Expected string
	Got      string
	Pos      string
	Kind     string // "wrong-terminal" | "unrecognised" | "out-of-range" | "no-path" | "ambiguous" | "loop-dependent"
	Atom     string
}

// Result of a comparison.
type Result struct {
	Worlds     int
	Paths      int
	Atoms      []string
	Mismatches []Mismatch
}

// Compare runs every world through the paths.
func Compare(paths []*pt.Path, worlds []World, expect func(w *World) Terminal, posOf func(p *pt.Path, atom int) string) Result {
	res := Result{Paths: len(paths)}
	atomSet := map[string]bool{}
	for _, p := range paths {
		for _, a := range p.Atoms {
			if !a.Loop {
				atomSet[a.Key] = true
			}
		}
	}
	for a := range atomSet {
		res.Atoms = append(res.Atoms, a)
	}
	sort.Strings(res.Atoms)
	seen := map[string]bool{}
	add := func(m Mismatch) {
		k := m.Kind + "|" + m.Atom + "|" + m.Expected + "|" + m.Got
		if seen[k] {
			return
		}
		seen[k] = true
		res.Mismatches = append(res.Mismatches, m)
	}
	for wi := range worlds {
		w := &worlds[wi]
		res.Worlds++
		var matched []*pt.Path
	paths:
		for _, p := range paths {
			for ai, a := range p.Atoms {
				if a.Loop {
					continue
				}
				v, err := EvalBool(a.T, w)
				if err != nil {
					switch e := err.(type) {
					case *ErrUnrecognised:
						add(Mismatch{World: w.Desc, Kind: "unrecognised", Atom: e.Atom, Pos: posOf(p, ai), Got: "guard on " + a.Key})
					case *ErrOutOfRange:
						add(Mismatch{World: w.Desc, Kind: "out-of-range", Atom: e.What, Pos: posOf(p, ai), Got: "guard " + a.Key + " indexes past the length fixed by the world"})
					}
					continue paths
				}
				if v != a.Val {
					continue paths
				}
			}
			matched = append(matched, p)
		}
		exp := expect(w)
		if len(matched) == 0 {
			add(Mismatch{World: w.Desc, Kind: "no-path", Expected: exp.String(), Got: "no path is consistent with this world"})
			continue
		}
		// several matches can only differ in loop atoms; they must agree
		for _, p := range matched {
			if !exp.Match(p) {
				var rs []string
				for _, r := range p.Results {
					rs = append(rs, r.String())
				}
				for k, v := range p.Finals {
					rs = append(rs, "["+k+" := "+v.String()+"]")
				}
				add(Mismatch{World: w.Desc, Kind: "wrong-terminal", Expected: exp.String(), Got: p.Kind + " " + strings.Join(rs, ", "), Pos: posOf(p, -1)})
				break
			}
		}
	}
	return res
}

// Product builds worlds as the cartesian product of integer choices and free booleans, filtered by ok.
func Product(ints map[string][]int, bools []string, ok func(w *World) bool) []World {
	var ikeys []string
	for k := range ints {
		ikeys = append(ikeys, k)
	}
	sort.Strings(ikeys)
	var out []World
	var rec func(i int, cur map[string]int)
	rec = func(i int, cur map[string]int) {
		if i == len(ikeys) {
			for mask := 0; mask < 1<<uint(len(bools)); mask++ {
				w := World{Ints: map[string]int{}, Bools: map[string]bool{}}
				for k, v := range cur {
					w.Ints[k] = v
				}
				for bi, b := range bools {
					w.Bools[b] = mask&(1<<uint(bi)) != 0
				}
				if ok != nil && !ok(&w) {
					continue
				}
				var d []string
				for _, k := range ikeys {
					d = append(d, fmt.Sprintf("%s=%d", k, w.Ints[k]))
				}
				for _, b := range bools {
					d = append(d, fmt.Sprintf("%s=%v", b, w.Bools[b]))
				}
				w.Desc = strings.Join(d, " ")
				out = append(out, w)
			}
			return
		}
		for _, v := range ints[ikeys[i]] {
			cur[ikeys[i]] = v
			rec(i+1, cur)
		}
		delete(cur, ikeys[i])
	}
	rec(0, map[string]int{})
	return out
}
