package f

import (
	"fmt"
	"math/big"

	"golang.org/x/tools/go/ssa"
)

// L is the order of the prime-order subgroup.
var L, _ = new(big.Int).SetString("7237005577332262213973186563042994240857116359379907606001950938285454250989", 10)

// LWords are the four little-endian 64-bit words of L.
func LWords() [4]*big.Int {
	var w [4]*big.Int
	mask := new(big.Int).SetUint64(^uint64(0))
	t := new(big.Int).Set(L)
	for i := 0; i < 4; i++ {
		w[i] = new(big.Int).And(t, mask)
		t = new(big.Int).Rsh(t, 64)
	}
	return w
}

// ScClass is one abstract class of a 32-byte scalar: the concrete top byte and
// the order of each little-endian 64-bit word relative to the word of L.
type ScClass struct {
	B31 uint8
	Rel [4]Rel
}

func (c ScClass) Len() int { return 32 }
func (c ScClass) Byte(i int) (uint8, bool) {
	if i == 31 {
		return c.B31, true
	}
	return 0, false
}
func (c ScClass) Word(off, width int) (*big.Int, Rel, bool) {
	if width != 8 || off%8 != 0 || off < 0 || off > 24 {
		return nil, 0, false
	}
	return LWords()[off/8], c.Rel[off/8], true
}

// Less is the specification: s < L for every scalar of the class.
func (c ScClass) Less() bool {
	for i := 3; i >= 0; i-- {
		if c.Rel[i] == Lt {
			return true
		}
		if c.Rel[i] == Gt {
			return false
		}
	}
	return false // s == L
}

func (c ScClass) String() string {
	r := func(x Rel) string { return map[Rel]string{Lt: "<", Eq: "=", Gt: ">"}[x] }
	return fmt.Sprintf("byte31=0x%02x w3%sL3 w2%sL2 w1%sL1 w0%sL0", c.B31, r(c.Rel[3]), r(c.Rel[2]), r(c.Rel[1]), r(c.Rel[0]))
}

// Example returns a concrete member of the class (hex, big-endian integer) for diagnostics.
func (c ScClass) Example() string {
	w := LWords()
	v := new(big.Int)
	for i := 3; i >= 0; i-- {
		x := new(big.Int).Set(w[i])
		switch c.Rel[i] {
		case Lt:
			x.Sub(x, big.NewInt(1))
		case Gt:
			x.Add(x, big.NewInt(1))
		}
		if i == 3 {
			// force byte 31
			low := new(big.Int).And(x, new(big.Int).SetUint64(0x00ffffffffffffff))
			if c.Rel[3] == Lt && c.B31 < 0x10 {
				low = new(big.Int)
			}
			if c.Rel[3] == Gt && c.B31 > 0x10 {
				low = new(big.Int)
			}
			x = new(big.Int).Or(new(big.Int).Lsh(big.NewInt(int64(c.B31)), 56), low)
		}
		v.Lsh(v, 64)
		v.Or(v, x)
	}
	return "0x" + v.Text(16)
}

// ScClasses enumerates every consistent class. Soundness of the partition:
// byte 31 is the top byte of word 3 and L's word 3 is 0x10<<56, so
// byte31<0x10 ⇒ w3<L3, byte31>0x10 ⇒ w3>L3, byte31=0x10 ⇒ w3=L3 or w3>L3;
// L's word 2 is 0 so w2<L2 is impossible.
func ScClasses() []ScClass {
	var out []ScClass
	for b := 0; b < 256; b++ {
		var r3 []Rel
		switch {
		case b < 0x10:
			r3 = []Rel{Lt}
		case b > 0x10:
			r3 = []Rel{Gt}
		default:
			r3 = []Rel{Eq, Gt}
		}
		for _, a3 := range r3 {
			for _, a2 := range []Rel{Eq, Gt} {
				for _, a1 := range []Rel{Lt, Eq, Gt} {
					for _, a0 := range []Rel{Lt, Eq, Gt} {
						out = append(out, ScClass{uint8(b), [4]Rel{a0, a1, a2, a3}})
					}
				}
			}
		}
	}
	return out
}

// ScResult is the verdict of the exhaustive class evaluation.
type ScResult struct {
	Classes    int
	Steps      int
	Mismatches []string // class descriptions with code verdict != spec
	Unrec      []string
}

// CheckScMin evaluates fn on every class.
func CheckScMin(fn *ssa.Function, globals GlobalReader) ScResult {
	var res ScResult
	for _, c := range ScClasses() {
		res.Classes++
		got, steps, err := Eval(fn, c, globals)
		res.Steps += steps
		if err != nil {
			if len(res.Unrec) < 5 {
				res.Unrec = append(res.Unrec, fmt.Sprintf("class {%s}: %v", c, err))
			}
			continue
		}
		if got != c.Less() {
			if len(res.Mismatches) < 8 {
				res.Mismatches = append(res.Mismatches, fmt.Sprintf("class {%s} (e.g. S=%s): code returns %v, S<L is %v", c, c.Example(), got, c.Less()))
			} else {
				res.Mismatches = append(res.Mismatches, "")
			}
		}
	}
	return res
}
