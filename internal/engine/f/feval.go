// Package f implements engine F: finite predicate abstraction. A small
// abstract evaluator for byte/integer functions in go/ssa whose input is
// touched only through mask tests on individual bytes and ordered comparisons
// of little-endian words with constants.
package f

import (
	"fmt"
	"go/constant"
	"go/token"
	"go/types"
	"math/big"

	"golang.org/x/tools/go/ssa"
)

// Rel is the order of a symbolic word relative to a reference constant.
type Rel int

const (
	Lt Rel = -1
	Eq Rel = 0
	Gt Rel = 1
)

// Oracle describes one abstract class of the byte-slice parameter.
type Oracle interface {
	Len() int                                           // concrete length of the slice
	Byte(i int) (uint8, bool)                           // concrete value of byte i if the class fixes it
	Word(off, width int) (ref *big.Int, r Rel, ok bool) // relation of LE word at off to its reference constant
}

// value kinds
type conc struct {
	v   *big.Int
	typ types.Type
}
type boolv struct{ b bool }
type slicev struct{ off int } // the parameter slice re-sliced from off
type ptrv struct {            // pointer to element
	slice bool
	off   int // byte offset (slice)
	glob  *ssa.Global
	idx   int
}
type wordv struct{ off, width int } // symbolic little-endian word of the parameter
type opaque struct{ what string }

// Unrecognised is returned when the function steps outside the abstraction.
type Unrecognised struct {
	Pos token.Pos
	Msg string
}

func (u *Unrecognised) Error() string { return u.Msg }

// GlobalReader supplies the values of package-level arrays as written in the source.
type GlobalReader func(g *ssa.Global, idx int) (*big.Int, bool)

// Eval runs fn (single []byte parameter, bool result) on the class described by o.
func Eval(fn *ssa.Function, o Oracle, globals GlobalReader) (bool, int, error) {
	if len(fn.Params) != 1 {
		return false, 0, &Unrecognised{fn.Pos(), "expected exactly one parameter"}
	}
	env := map[ssa.Value]interface{}{fn.Params[0]: slicev{0}}
	var prev *ssa.BasicBlock
	b := fn.Blocks[0]
	steps := 0
	unrec := func(in ssa.Instruction, msg string) error {
		return &Unrecognised{in.Pos(), fmt.Sprintf("%s: %s", msg, in.String())}
	}
	get := func(v ssa.Value) (interface{}, bool) {
		if c, ok := v.(*ssa.Const); ok {
			if c.Value == nil {
				return opaque{"nil"}, true
			}
			switch c.Value.Kind() {
			case constant.Bool:
				return boolv{constant.BoolVal(c.Value)}, true
			case constant.Int:
				bi, _ := new(big.Int).SetString(c.Value.ExactString(), 10)
				return conc{bi, c.Type()}, true
			}
			return nil, false
		}
		x, ok := env[v]
		return x, ok
	}
	for {
	instrs:
		for _, in := range b.Instrs {
			steps++
			if steps > 100000 {
				return false, steps, &Unrecognised{in.Pos(), "step limit exceeded (non-terminating on this class?)"}
			}
			switch x := in.(type) {
			case *ssa.Phi:
				idx := -1
				for i, p := range b.Preds {
					if p == prev {
						idx = i
					}
				}
				if idx < 0 {
					return false, steps, unrec(in, "phi without predecessor")
				}
				v, ok := get(x.Edges[idx])
				if !ok {
					return false, steps, unrec(in, "phi operand unknown")
				}
				env[x] = v
			case *ssa.IndexAddr:
				base, ok := get(x.X)
				iv, ok2 := get(x.Index)
				ic, ok3 := iv.(conc)
				if !ok2 || !ok3 {
					return false, steps, unrec(in, "non-concrete index")
				}
				i := int(ic.v.Int64())
				if sv, isS := base.(slicev); ok && isS {
					if i < 0 || sv.off+i >= o.Len() {
						return false, steps, unrec(in, fmt.Sprintf("index %d out of range (len %d)", sv.off+i, o.Len()))
					}
					env[x] = ptrv{slice: true, off: sv.off + i}
				} else if g, isG := x.X.(*ssa.Global); isG {
					env[x] = ptrv{glob: g, idx: i}
				} else {
					return false, steps, unrec(in, "index of unsupported base")
				}
			case *ssa.UnOp:
				switch x.Op {
				case token.MUL:
					if g, isG := x.X.(*ssa.Global); isG {
						env[x] = opaque{"global " + g.Name()}
						continue
					}
					pv, ok := get(x.X)
					p, ok2 := pv.(ptrv)
					if !ok || !ok2 {
						return false, steps, unrec(in, "load through unsupported pointer")
					}
					if p.slice {
						if bv, ok := o.Byte(p.off); ok {
							env[x] = conc{big.NewInt(int64(bv)), x.Type()}
						} else {
							env[x] = wordv{p.off, 1}
						}
					} else {
						v, ok := globals(p.glob, p.idx)
						if !ok {
							return false, steps, unrec(in, "cannot read global element")
						}
						env[x] = conc{v, x.Type()}
					}
				case token.NOT:
					v, ok := get(x.X)
					bv, ok2 := v.(boolv)
					if !ok || !ok2 {
						return false, steps, unrec(in, "! of non-bool")
					}
					env[x] = boolv{!bv.b}
				default:
					return false, steps, unrec(in, "unsupported unary op")
				}
			case *ssa.BinOp:
				l, ok1 := get(x.X)
				r, ok2 := get(x.Y)
				if !ok1 || !ok2 {
					return false, steps, unrec(in, "operand unknown")
				}
				res, err := binop(x, l, r, o)
				if err != nil {
					return false, steps, unrec(in, err.Error())
				}
				env[x] = res
			case *ssa.Slice:
				base, ok := get(x.X)
				sv, isS := base.(slicev)
				if !ok || !isS || x.High != nil || x.Max != nil {
					return false, steps, unrec(in, "unsupported slice expression")
				}
				lo := 0
				if x.Low != nil {
					lv, ok := get(x.Low)
					lc, ok2 := lv.(conc)
					if !ok || !ok2 {
						return false, steps, unrec(in, "non-concrete slice bound")
					}
					lo = int(lc.v.Int64())
				}
				if lo < 0 || sv.off+lo > o.Len() {
					return false, steps, unrec(in, "slice bound out of range")
				}
				env[x] = slicev{sv.off + lo}
			case *ssa.Call:
				c := x.Common()
				name := ""
				if f := c.StaticCallee(); f != nil {
					name = f.String()
				}
				switch name {
				case "(encoding/binary.littleEndian).Uint64", "(encoding/binary.littleEndian).Uint32":
					w := 8
					if name == "(encoding/binary.littleEndian).Uint32" {
						w = 4
					}
					av, ok := get(c.Args[len(c.Args)-1])
					sv, isS := av.(slicev)
					if !ok || !isS {
						return false, steps, unrec(in, "word read of unsupported operand")
					}
					if sv.off+w > o.Len() {
						return false, steps, unrec(in, "word read past the end of the scalar")
					}
					env[x] = wordv{sv.off, w}
				default:
					if b, ok := c.Value.(*ssa.Builtin); ok && b.Name() == "len" {
						av, ok := get(c.Args[0])
						sv, isS := av.(slicev)
						if ok && isS {
							env[x] = conc{big.NewInt(int64(o.Len() - sv.off)), x.Type()}
							continue
						}
					}
					return false, steps, unrec(in, "call outside the abstraction")
				}
			case *ssa.Convert:
				v, ok := get(x.X)
				cv, isC := v.(conc)
				if !ok || !isC {
					return false, steps, unrec(in, "conversion of non-concrete value")
				}
				env[x] = conc{wrap(cv.v, x.Type()), x.Type()}
			case *ssa.If:
				v, ok := get(x.Cond)
				bv, ok2 := v.(boolv)
				if !ok || !ok2 {
					return false, steps, unrec(in, "branch on undecided condition")
				}
				prev = b
				if bv.b {
					b = b.Succs[0]
				} else {
					b = b.Succs[1]
				}
				break instrs
			case *ssa.Jump:
				prev = b
				b = b.Succs[0]
				break instrs
			case *ssa.Return:
				if len(x.Results) != 1 {
					return false, steps, unrec(in, "unexpected result arity")
				}
				v, ok := get(x.Results[0])
				bv, ok2 := v.(boolv)
				if !ok || !ok2 {
					return false, steps, unrec(in, "undecided result")
				}
				return bv.b, steps, nil
			case *ssa.DebugRef:
			default:
				return false, steps, unrec(in, "instruction outside the abstraction")
			}
		}
	}
}

func wrap(v *big.Int, t types.Type) *big.Int {
	b, ok := t.Underlying().(*types.Basic)
	if !ok {
		return v
	}
	bitsN := 64
	signed := false
	switch b.Kind() {
	case types.Int8:
		bitsN, signed = 8, true
	case types.Int16:
		bitsN, signed = 16, true
	case types.Int32:
		bitsN, signed = 32, true
	case types.Int64, types.Int:
		bitsN, signed = 64, true
	case types.Uint8:
		bitsN = 8
	case types.Uint16:
		bitsN = 16
	case types.Uint32:
		bitsN = 32
	case types.Uint64, types.Uint, types.Uintptr:
		bitsN = 64
	default:
		return v
	}
	mod := new(big.Int).Lsh(big.NewInt(1), uint(bitsN))
	r := new(big.Int).Mod(v, mod)
	if signed && r.Bit(bitsN-1) == 1 {
		r.Sub(r, mod)
	}
	return r
}

func binop(x *ssa.BinOp, l, r interface{}, o Oracle) (interface{}, error) {
	lc, lok := l.(conc)
	rc, rok := r.(conc)
	if lok && rok {
		a, b := lc.v, rc.v
		cmp := a.Cmp(b)
		switch x.Op {
		case token.EQL:
			return boolv{cmp == 0}, nil
		case token.NEQ:
			return boolv{cmp != 0}, nil
		case token.LSS:
			return boolv{cmp < 0}, nil
		case token.LEQ:
			return boolv{cmp <= 0}, nil
		case token.GTR:
			return boolv{cmp > 0}, nil
		case token.GEQ:
			return boolv{cmp >= 0}, nil
		}
		z := new(big.Int)
		switch x.Op {
		case token.ADD:
			z.Add(a, b)
		case token.SUB:
			z.Sub(a, b)
		case token.MUL:
			z.Mul(a, b)
		case token.AND:
			z.And(a, b)
		case token.OR:
			z.Or(a, b)
		case token.XOR:
			z.Xor(a, b)
		case token.AND_NOT:
			z.AndNot(a, b)
		case token.SHL:
			z.Lsh(a, uint(b.Uint64()))
		case token.SHR:
			z.Rsh(a, uint(b.Uint64()))
		case token.QUO:
			if b.Sign() == 0 {
				return nil, fmt.Errorf("division by zero")
			}
			z.Quo(a, b)
		case token.REM:
			if b.Sign() == 0 {
				return nil, fmt.Errorf("division by zero")
			}
			z.Rem(a, b)
		default:
			return nil, fmt.Errorf("unsupported operator %s", x.Op)
		}
		return conc{wrap(z, x.Type()), x.Type()}, nil
	}
	if lb, ok := l.(boolv); ok {
		if rb, ok := r.(boolv); ok {
			switch x.Op {
			case token.EQL:
				return boolv{lb.b == rb.b}, nil
			case token.NEQ:
				return boolv{lb.b != rb.b}, nil
			}
		}
	}
	// symbolic word vs constant
	w, wok := l.(wordv)
	c, cok := r.(conc)
	op := x.Op
	if !wok {
		w, wok = r.(wordv)
		c, cok = l.(conc)
		// flip
		switch op {
		case token.LSS:
			op = token.GTR
		case token.GTR:
			op = token.LSS
		case token.LEQ:
			op = token.GEQ
		case token.GEQ:
			op = token.LEQ
		}
	}
	if wok && cok {
		ref, rel, ok := o.Word(w.off, w.width)
		if !ok {
			return nil, fmt.Errorf("word at offset %d width %d is outside the partition", w.off, w.width)
		}
		if ref.Cmp(c.v) != 0 {
			return nil, fmt.Errorf("word at offset %d compared with %s, partition is relative to %s", w.off, c.v.Text(16), ref.Text(16))
		}
		switch op {
		case token.EQL:
			return boolv{rel == Eq}, nil
		case token.NEQ:
			return boolv{rel != Eq}, nil
		case token.LSS:
			return boolv{rel == Lt}, nil
		case token.LEQ:
			return boolv{rel != Gt}, nil
		case token.GTR:
			return boolv{rel == Gt}, nil
		case token.GEQ:
			return boolv{rel != Lt}, nil
		}
	}
	return nil, fmt.Errorf("operands outside the abstraction")
}
