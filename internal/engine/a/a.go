// Package a implements engine A: audits of constants and tables as written in
// the source, against values recomputed with independent big-integer arithmetic
// on edwards25519. Nothing of the repository runs; literals are read.
package a

import (
	"fmt"
	"math/big"
)

var (
	// P is the field prime 2^255-19.
	P = new(big.Int).Sub(new(big.Int).Lsh(big.NewInt(1), 255), big.NewInt(19))
	// L is the group order.
	L, _ = new(big.Int).SetString("7237005577332262213973186563042994240857116359379907606001950938285454250989", 10)
	// D is the curve constant -121665/121666.
	D = func() *big.Int {
		inv := new(big.Int).ModInverse(big.NewInt(121666), P)
		d := new(big.Int).Mul(big.NewInt(-121665), inv)
		return d.Mod(d, P)
	}()
	// By is 4/5.
	By = func() *big.Int {
		inv := new(big.Int).ModInverse(big.NewInt(5), P)
		y := new(big.Int).Mul(big.NewInt(4), inv)
		return y.Mod(y, P)
	}()
	// Bx is the even (non-negative) x with x^2 = (y^2-1)/(d y^2+1).
	Bx = func() *big.Int {
		x := recoverX(By)
		if x.Bit(0) == 1 {
			x.Sub(P, x)
		}
		return x
	}()
	// SqrtM1 = 2^((p-1)/4).
	SqrtM1 = new(big.Int).Exp(big.NewInt(2), new(big.Int).Rsh(new(big.Int).Sub(P, big.NewInt(1)), 2), P)
)

func mod(x *big.Int) *big.Int { return new(big.Int).Mod(x, P) }

func recoverX(y *big.Int) *big.Int {
	y2 := mod(new(big.Int).Mul(y, y))
	num := mod(new(big.Int).Sub(y2, big.NewInt(1)))
	den := mod(new(big.Int).Add(new(big.Int).Mul(D, y2), big.NewInt(1)))
	x2 := mod(new(big.Int).Mul(num, new(big.Int).ModInverse(den, P)))
	// p = 5 mod 8
	e := new(big.Int).Rsh(new(big.Int).Add(P, big.NewInt(3)), 3)
	x := new(big.Int).Exp(x2, e, P)
	if mod(new(big.Int).Mul(x, x)).Cmp(x2) != 0 {
		x = mod(new(big.Int).Mul(x, SqrtM1))
	}
	if mod(new(big.Int).Mul(x, x)).Cmp(x2) != 0 {
		panic("base point y is not on the curve")
	}
	return x
}

// Point is an affine point.
type Point struct{ X, Y *big.Int }

// Identity is the neutral element.
func Identity() Point { return Point{big.NewInt(0), big.NewInt(1)} }

// B is the base point.
func B() Point { return Point{new(big.Int).Set(Bx), new(big.Int).Set(By)} }

// Add is the complete twisted Edwards addition (a = -1).
func Add(p, q Point) Point {
	x1y2 := new(big.Int).Mul(p.X, q.Y)
	y1x2 := new(big.Int).Mul(p.Y, q.X)
	y1y2 := new(big.Int).Mul(p.Y, q.Y)
	x1x2 := new(big.Int).Mul(p.X, q.X)
	dxy := mod(new(big.Int).Mul(D, mod(new(big.Int).Mul(x1x2, y1y2))))
	nx := mod(new(big.Int).Add(x1y2, y1x2))
	ny := mod(new(big.Int).Add(y1y2, x1x2))
	dx := mod(new(big.Int).Add(big.NewInt(1), dxy))
	dy := mod(new(big.Int).Sub(big.NewInt(1), dxy))
	return Point{mod(new(big.Int).Mul(nx, new(big.Int).ModInverse(dx, P))), mod(new(big.Int).Mul(ny, new(big.Int).ModInverse(dy, P)))}
}

// Mul is double-and-add.
func Mul(k *big.Int, p Point) Point {
	r := Identity()
	for i := k.BitLen() - 1; i >= 0; i-- {
		r = Add(r, r)
		if k.Bit(i) == 1 {
			r = Add(r, p)
		}
	}
	return r
}

// Niels returns (y-x, y+x, t) with t = 2xy (withD false) or 2dxy (withD true).
func Niels(p Point, withD bool) [3]*big.Int {
	t := mod(new(big.Int).Mul(big.NewInt(2), mod(new(big.Int).Mul(p.X, p.Y))))
	if withD {
		t = mod(new(big.Int).Mul(t, D))
	}
	return [3]*big.Int{mod(new(big.Int).Sub(p.Y, p.X)), mod(new(big.Int).Add(p.Y, p.X)), t}
}

// FromLimbs evaluates a limb vector with the given bit weights.
func FromLimbs(limbs []*big.Int, weights []int) *big.Int {
	v := new(big.Int)
	for i, l := range limbs {
		v.Add(v, new(big.Int).Lsh(l, uint(weights[i])))
	}
	return v
}

// FieldWeights returns the limb weights of the field layout (5x51 or 10x25.5).
func FieldWeights(n int) ([]int, error) {
	switch n {
	case 5:
		return []int{0, 51, 102, 153, 204}, nil
	case 10:
		return []int{0, 26, 51, 77, 102, 128, 153, 179, 204, 230}, nil
	}
	return nil, fmt.Errorf("unknown field layout with %d limbs", n)
}

// FromBytesLE reads a little-endian integer.
func FromBytesLE(b []*big.Int) *big.Int {
	v := new(big.Int)
	for i := len(b) - 1; i >= 0; i-- {
		v.Lsh(v, 8)
		v.Or(v, b[i])
	}
	return v
}

// Mu is floor(2^512 / L), the Barrett constant.
func Mu() *big.Int { return new(big.Int).Div(new(big.Int).Lsh(big.NewInt(1), 512), L) }
