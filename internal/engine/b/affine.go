package b

import (
	"fmt"
	"sort"
	"strconv"
	"strings"

	"verif/internal/pt"
)

// Affine is c0 + sum(coef * leaf).
type Affine struct {
	Const int
	Coef  map[string]int
	OK    bool
}

func constOf(t *pt.Term) (int, bool) {
	if len(t.Args) != 0 || !strings.HasPrefix(t.Op, "#") {
		return 0, false
	}
	n, err := strconv.Atoi(t.Op[1:])
	return n, err == nil
}

// AffineOf normalises an integer term built from add/subtract/mul-by-constant over leaves.
func AffineOf(t *pt.Term) Affine {
	a := Affine{Coef: map[string]int{}, OK: true}
	var rec func(t *pt.Term, k int)
	rec = func(t *pt.Term, k int) {
		if !a.OK {
			return
		}
		if n, ok := constOf(t); ok {
			a.Const += k * n
			return
		}
		switch {
		case t.Op == "add" && len(t.Args) == 2:
			rec(t.Args[0], k)
			rec(t.Args[1], k)
		case t.Op == "subtract" && len(t.Args) == 2:
			rec(t.Args[0], k)
			rec(t.Args[1], -k)
		case t.Op == "mul" && len(t.Args) == 2:
			if n, ok := constOf(t.Args[0]); ok {
				rec(t.Args[1], k*n)
			} else if n, ok := constOf(t.Args[1]); ok {
				rec(t.Args[0], k*n)
			} else {
				a.OK = false
			}
		case t.Op == "shl" && len(t.Args) == 2:
			if n, ok := constOf(t.Args[1]); ok && n < 31 {
				rec(t.Args[0], k<<uint(n))
			} else {
				a.OK = false
			}
		case len(t.Args) == 0:
			a.Coef[t.Op] += k
		case strings.HasPrefix(t.Op, "conv:") && len(t.Args) == 1:
			rec(t.Args[0], k)
		default:
			a.OK = false
		}
	}
	rec(t, 1)
	for k, v := range a.Coef {
		if v == 0 {
			delete(a.Coef, k)
		}
	}
	return a
}

// String renders the canonical form.
func (a Affine) String() string {
	if !a.OK {
		return "nonaffine"
	}
	var ks []string
	for k := range a.Coef {
		ks = append(ks, k)
	}
	sort.Strings(ks)
	var parts []string
	for _, k := range ks {
		if a.Coef[k] == 1 {
			parts = append(parts, k)
		} else {
			parts = append(parts, fmt.Sprintf("%d*%s", a.Coef[k], k))
		}
	}
	if a.Const != 0 || len(parts) == 0 {
		parts = append(parts, strconv.Itoa(a.Const))
	}
	return strings.Join(parts, "+")
}

// Is reports whether a equals c + sum of the given unit-coefficient leaves.
func (a Affine) Is(c int, leaves ...string) bool {
	if !a.OK || a.Const != c || len(a.Coef) != len(leaves) {
		return false
	}
	for _, l := range leaves {
		if a.Coef[l] != 1 {
			return false
		}
	}
	return true
}

// IsScaled reports whether a equals c + k*leaf.
func (a Affine) IsScaled(c, k int, leaf string) bool {
	return a.OK && a.Const == c && len(a.Coef) == 1 && a.Coef[leaf] == k
}

// NormIdx rewrites every index position (second argument of at/addr/ptr, bounds of sub/slice) of t into canonical
// affine leaves: the entry index i+offset becomes the leaf "@e"; other affine forms become "aff{...}" with the
// loop counter rendered as "i", the chunk base as "off" and the chunk size as "bs".
func NormIdx(t *pt.Term, names map[string]string, entry func(a Affine) bool) *pt.Term {
	return NormIdxS(t, names, nil, entry)
}

// Add returns a + k*c.
func (a Affine) AddScaled(c Affine, k int) Affine {
	r := Affine{Const: a.Const + k*c.Const, Coef: map[string]int{}, OK: a.OK && c.OK}
	for l, v := range a.Coef {
		r.Coef[l] += v
	}
	for l, v := range c.Coef {
		r.Coef[l] += k * v
	}
	for l, v := range r.Coef {
		if v == 0 {
			delete(r.Coef, l)
		}
	}
	return r
}

// Apply renames leaves and substitutes leaves by affine forms (over already-canonical leaf names).
func (a Affine) Apply(names map[string]string, subst map[string]Affine) Affine {
	r := Affine{Const: a.Const, Coef: map[string]int{}, OK: a.OK}
	for k, v := range a.Coef {
		if s, ok := subst[k]; ok {
			r = r.AddScaled(s, v)
		} else if n, ok := names[k]; ok {
			r.Coef[n] += v
		} else {
			r.Coef[k] += v
		}
	}
	for l, v := range r.Coef {
		if v == 0 {
			delete(r.Coef, l)
		}
	}
	return r
}

// Equal compares two affine forms.
func (a Affine) Equal(c Affine) bool {
	if !a.OK || !c.OK || a.Const != c.Const || len(a.Coef) != len(c.Coef) {
		return false
	}
	for k, v := range a.Coef {
		if c.Coef[k] != v {
			return false
		}
	}
	return true
}

// NormIdxS is NormIdx with leaf substitution: a leaf listed in subst is replaced by its affine form (whose leaves are
// canonical names) before the entry test and rendering. The entry predicate sees the canonical form.
func NormIdxS(t *pt.Term, names map[string]string, subst map[string]Affine, entry func(a Affine) bool) *pt.Term {
	memo := map[*pt.Term]*pt.Term{}
	var norm func(t *pt.Term) *pt.Term
	idx := func(t *pt.Term) *pt.Term {
		if t == nil || (len(t.Args) == 0 && (t.Op == "" || strings.HasPrefix(t.Op, "#"))) {
			return t
		}
		a := AffineOf(t)
		if !a.OK {
			return norm(t)
		}
		b := a.Apply(names, subst)
		if entry(b) {
			return pt.Leaf("@e")
		}
		if len(b.Coef) == 0 {
			return pt.Leaf("#" + strconv.Itoa(b.Const))
		}
		return pt.Leaf("aff{" + b.String() + "}")
	}
	norm = func(t *pt.Term) *pt.Term {
		if t == nil || len(t.Args) == 0 {
			if t != nil {
				if n, ok := names[t.Op]; ok {
					return pt.Leaf(n)
				}
			}
			return t
		}
		if r, ok := memo[t]; ok {
			return r
		}
		args := make([]*pt.Term, len(t.Args))
		for i, a := range t.Args {
			isIdx := false
			switch t.Op {
			case "at", "addr", "ptr":
				isIdx = i == 1
			case "sub", "slice":
				isIdx = i >= 1
			}
			if isIdx {
				args[i] = idx(a)
			} else {
				args[i] = norm(a)
			}
		}
		r := pt.T(t.Op, args...)
		memo[t] = r
		return r
	}
	return norm(t)
}
