package b

import (
	"fmt"
	"sort"
	"strconv"
	"strings"

	"verif/internal/pt"
)

// Affine is c0 + sum(coef * leaf).
type Affine struct {
	Const int
	Coef  map[string]int
	OK    bool
}

func constOf(t *pt.Term) (int, bool) {
	if len(t.Args) != 0 || !strings.HasPrefix(t.Op, "#") {
		return 0, false
	}
	n, err := strconv.Atoi(t.Op[1:])
	return n, err == nil
}

// AffineOf normalises an integer term built from add/subtract/mul-by-constant over leaves.
func AffineOf(t *pt.Term) Affine {
	a := Affine{Coef: map[string]int{}, OK: true}
	var rec func(t *pt.Term, k int)
	rec = func(t *pt.Term, k int) {
		if !a.OK {
			return
		}
		if n, ok := constOf(t); ok {
			a.Const += k * n
			return
		}
		switch {
		case t.Op == "add" && len(t.Args) == 2:
			rec(t.Args[0], k)
			rec(t.Args[1], k)
		case t.Op == "subtract" && len(t.Args) == 2:
			rec(t.Args[0], k)
			rec(t.Args[1], -k)
		case t.Op == "mul" && len(t.Args) == 2:
			if n, ok := constOf(t.Args[0]); ok {
				rec(t.Args[1], k*n)
			} else if n, ok := constOf(t.Args[1]); ok {
				rec(t.Args[0], k*n)
			} else {
				a.OK = false
			}
		case t.Op == "shl" && len(t.Args) == 2:
			if n, ok := constOf(t.Args[1]); ok && n < 31 {
				rec(t.Args[0], k<<uint(n))
			} else {
				a.OK = false
			}
		case len(t.Args) == 0:
			a.Coef[t.Op] += k
		case strings.HasPrefix(t.Op, "conv:") && len(t.Args) == 1:
			rec(t.Args[0], k)
		default:
			a.OK = false
		}
	}
	rec(t, 1)
	for k, v := range a.Coef {
		if v == 0 {
			delete(a.Coef, k)
		}
	}
	return a
}

// String renders the canonical form.
func (a Affine) String() string {
	if !a.OK {
		return "nonaffine"
	}
	var ks []string
	for k := range a.Coef {
		ks = append(ks, k)
	}
	sort.Strings(ks)
	var parts []string
	for _, k := range ks {
		if a.Coef[k] == 1 {
			parts = append(parts, k)
		} else {
			parts = append(parts, fmt.Sprintf("%d*%s", a.Coef[k], k))
		}
	}
	if a.Const != 0 || len(parts) == 0 {
		parts = append(parts, strconv.Itoa(a.Const))
	}
	return strings.Join(parts, "+")
}

// Is reports whether a equals c + sum of the given unit-coefficient leaves.
func (a Affine) Is(c int, leaves ...string) bool {
	if !a.OK || a.Const != c || len(a.Coef) != len(leaves) {
		return false
	}
	for _, l := range leaves {
		if a.Coef[l] != 1 {
			return false
		}
	}
	return true
}

// IsScaled reports whether a equals c + k*leaf.
func (a Affine) IsScaled(c, k int, leaf string) bool {
	return a.OK && a.Const == c && len(a.Coef) == 1 && a.Coef[leaf] == k
}

// NormIdx rewrites every index position (second argument of at/addr/ptr, bounds of sub/slice) of t into canonical
// affine leaves: the entry index i+offset becomes the leaf "@e"; other affine forms become "aff{...}" with the
// loop counter rendered as "i", the chunk base as "off" and the chunk size as "bs".
func NormIdx(t *pt.Term, names map[string]string, entry func(a Affine) bool) *pt.Term {
	memo := map[*pt.Term]*pt.Term{}
	var norm func(t *pt.Term) *pt.Term
	idx := func(t *pt.Term) *pt.Term {
		if t == nil || (len(t.Args) == 0 && (t.Op == "" || strings.HasPrefix(t.Op, "#"))) {
			return t
		}
		a := AffineOf(t)
		if !a.OK {
			return norm(t)
		}
		if entry(a) {
			return pt.Leaf("@e")
		}
		b := Affine{Const: a.Const, Coef: map[string]int{}, OK: true}
		for k, v := range a.Coef {
			if n, ok := names[k]; ok {
				b.Coef[n] += v
			} else {
				b.Coef[k] += v
			}
		}
		if len(b.Coef) == 0 {
			return pt.Leaf("#" + strconv.Itoa(b.Const))
		}
		return pt.Leaf("aff{" + b.String() + "}")
	}
	norm = func(t *pt.Term) *pt.Term {
		if t == nil || len(t.Args) == 0 {
			if t != nil {
				if n, ok := names[t.Op]; ok {
					return pt.Leaf(n)
				}
			}
			return t
		}
		if r, ok := memo[t]; ok {
			return r
		}
		args := make([]*pt.Term, len(t.Args))
		for i, a := range t.Args {
			isIdx := false
			switch t.Op {
			case "at", "addr", "ptr":
				isIdx = i == 1
			case "sub", "slice":
				isIdx = i >= 1
			}
			if isIdx {
				args[i] = idx(a)
			} else {
				args[i] = norm(a)
			}
		}
		r := pt.T(t.Op, args...)
		memo[t] = r
		return r
	}
	return norm(t)
}
