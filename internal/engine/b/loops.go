// Package b implements engine B: structural rules over the batch verifier
// (loop structure, affine index discipline, slot map, fail/fallback discipline).
package b

import (
	"sort"

	"golang.org/x/tools/go/ssa"
)

// Loop is a natural loop of a function.
type Loop struct {
	Header *ssa.BasicBlock
	Blocks map[*ssa.BasicBlock]bool
	Parent *Loop
	Inner  []*Loop
}

// Loops computes the natural loops of fn, merged per header, with nesting.
func Loops(fn *ssa.Function) []*Loop {
	byHdr := map[*ssa.BasicBlock]*Loop{}
	for _, b := range fn.Blocks {
		for _, s := range b.Succs {
			if s.Dominates(b) { // back edge b -> s
				l := byHdr[s]
				if l == nil {
					l = &Loop{Header: s, Blocks: map[*ssa.BasicBlock]bool{s: true}}
					byHdr[s] = l
				}
				// collect blocks that reach b without passing s
				work := []*ssa.BasicBlock{b}
				for len(work) > 0 {
					x := work[len(work)-1]
					work = work[:len(work)-1]
					if l.Blocks[x] {
						continue
					}
					l.Blocks[x] = true
					work = append(work, x.Preds...)
				}
			}
		}
	}
	var loops []*Loop
	for _, l := range byHdr {
		loops = append(loops, l)
	}
	sort.Slice(loops, func(i, j int) bool { return loops[i].Header.Index < loops[j].Header.Index })
	// nesting: parent = smallest strictly containing loop
	for _, l := range loops {
		for _, m := range loops {
			if m == l || !m.Blocks[l.Header] || len(m.Blocks) <= len(l.Blocks) {
				continue
			}
			if l.Parent == nil || len(m.Blocks) < len(l.Parent.Blocks) {
				l.Parent = m
			}
		}
	}
	for _, l := range loops {
		if l.Parent != nil {
			l.Parent.Inner = append(l.Parent.Inner, l)
		}
	}
	return loops
}

// Innermost returns the innermost loop containing b (nil if none).
func Innermost(loops []*Loop, b *ssa.BasicBlock) *Loop {
	var best *Loop
	for _, l := range loops {
		if l.Blocks[b] && (best == nil || len(l.Blocks) < len(best.Blocks)) {
			best = l
		}
	}
	return best
}

// Exits returns the blocks outside the loop that are successors of loop blocks.
func (l *Loop) Exits() []*ssa.BasicBlock {
	seen := map[*ssa.BasicBlock]bool{}
	var out []*ssa.BasicBlock
	for b := range l.Blocks {
		for _, s := range b.Succs {
			if !l.Blocks[s] && !seen[s] {
				seen[s] = true
				out = append(out, s)
			}
		}
	}
	sort.Slice(out, func(i, j int) bool { return out[i].Index < out[j].Index })
	return out
}
