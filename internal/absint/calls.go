package absint

import (
	"fmt"
	"math/big"

	"golang.org/x/tools/go/ssa"

	"verif/internal/ssau"
)

func (it *Interp) newWide(lo, hi *big.Int) *Wide {
	it.wideN++
	return &Wide{ID: it.wideN, Lo: lo, Hi: hi}
}

func wideOf(v Val) (lo, hi *big.Int, w *Wide) {
	if v.Wide != nil && v.Part == 0 {
		return v.Wide.Lo, v.Wide.Hi, v.Wide
	}
	return v.Lo, v.Hi, nil
}

var two64 = pow2(64)
var two128 = pow2(128)

func hasExtract(call *ssa.Call, idx int) bool {
	refs := call.Referrers()
	if refs == nil {
		return false
	}
	for _, r := range *refs {
		if e, ok := r.(*ssa.Extract); ok && e.Index == idx {
			// an extract whose own value is never used is as good as discarded
			if er := e.Referrers(); er != nil {
				for _, u := range *er {
					if _, dbg := u.(*ssa.DebugRef); !dbg {
						return true
					}
				}
			}
		}
	}
	return false
}

func (it *Interp) mul64(x, y Val) TupleV {
	lo := new(big.Int).Mul(x.Lo, y.Lo)
	hi := new(big.Int).Mul(x.Hi, y.Hi)
	w := it.newWide(lo, hi)
	h := Range(new(big.Int).Rsh(lo, 64), new(big.Int).Rsh(hi, 64), 64, false)
	var l Val
	if hi.Cmp(two64) < 0 {
		l = Range(lo, hi, 64, false)
	} else {
		l = Top(64, false)
	}
	h.Wide, h.Part = w, 1
	l.Wide, l.Part = w, 0
	h.Sym = symBin("mulhi", x.Sym, y.Sym, 64)
	l.Sym = symBin("mullo", x.Sym, y.Sym, 64)
	if it.H.Polys {
		if pp := PolyMul(it.polyOf(x), it.polyOf(y)); pp != nil && !x.PolyMod && !y.PolyMod {
			h.Poly = it.polyHigh(pp, hi, 64)
			l.Poly = it.polyLow(pp, hi, 64)
		}
	}
	return TupleV{h, l}
}

// add64 models bits.Add64 including the pairing of low/high halves of 128-bit accumulators.
func (it *Interp) add64(call *ssa.Call, x, y, cin Val) TupleV {
	t := it.add64i(call, x, y, cin)
	if it.H.Polys {
		px, py, pc := it.polyOf(x), it.polyOf(y), it.polyOf(cin)
		if px != nil && py != nil && pc != nil && !x.PolyMod && !y.PolyMod && !cin.PolyMod {
			tot := PolyAdd(PolyAdd(px, py, 1), pc, 1)
			hi := new(big.Int).Add(new(big.Int).Add(x.Hi, y.Hi), cin.Hi)
			s, c := t[0].(Val), t[1].(Val)
			s.Poly = it.polyLow(tot, hi, 64)
			c.Poly = it.polyHigh(tot, hi, 64)
			return TupleV{s, c}
		}
	}
	return t
}

func (it *Interp) add64i(call *ssa.Call, x, y, cin Val) TupleV {
	discardCarry := !hasExtract(call, 1)
	// high-half addition that consumes the carry of a recorded low-half addition
	if cin.CarryOf != nil {
		c := cin.CarryOf
		xHi := x.Wide != nil && x.Part == 1
		yHi := y.Wide != nil && y.Part == 1
		okX := xHi || (x.IsConst() && x.Lo.Sign() == 0)
		okY := yHi || (y.IsConst() && y.Lo.Sign() == 0)
		if okX && okY {
			// c already is the exact 128-bit sum of the two accumulators (their high halves included at creation)
			total := c
			sum := Range(new(big.Int).Rsh(total.Lo, 64), new(big.Int).Rsh(total.Hi, 64), 64, false)
			var carry Val
			if total.Hi.Cmp(two128) < 0 {
				carry = ConstInt(0, 64, false)
			} else {
				sum = Top(64, false)
				carry = Range(big0, big1, 64, false)
				if discardCarry {
					it.flag("carry-out", fmt.Sprintf("the carry out of a 128-bit accumulation is discarded but the accumulator may reach 2^%d", total.Hi.BitLen()), call)
				}
			}
			sum.Wide, sum.Part = total, 1
			return TupleV{sum, carry}
		}
	}
	if cin.IsConst() && cin.Lo.Sign() == 0 {
		alo, ahi, aw := wideOf(x)
		blo, bhi, bw := wideOf(y)
		// the 128-bit sum; plain (non-paired) operands contribute their 64-bit value
		c := it.newWide(new(big.Int).Add(alo, blo), new(big.Int).Add(ahi, bhi))
		_ = aw
		_ = bw
		sumHi := new(big.Int).Add(x.Hi, y.Hi)
		var sum, carry Val
		if sumHi.Cmp(two64) < 0 {
			sum = Range(new(big.Int).Add(x.Lo, y.Lo), sumHi, 64, false)
			carry = ConstInt(0, 64, false)
		} else {
			sum = Top(64, false)
			carry = Range(big0, big1, 64, false)
		}
		sum.Wide, sum.Part = c, 0
		carry.CarryOf = c
		sum.Sym = symBin("add", x.Sym, y.Sym, 64)
		if discardCarry && !(carry.IsConst()) {
			it.flag("carry-out", "the carry out of a 64-bit addition is discarded but the sum may reach 2^64", call)
		}
		return TupleV{sum, carry}
	}
	// generic three-operand addition
	tot := new(big.Int).Add(new(big.Int).Add(x.Hi, y.Hi), cin.Hi)
	if tot.Cmp(two64) < 0 {
		lo := new(big.Int).Add(new(big.Int).Add(x.Lo, y.Lo), cin.Lo)
		return TupleV{Range(lo, tot, 64, false), ConstInt(0, 64, false)}
	}
	if discardCarry {
		it.flag("carry-out", "the carry out of a 64-bit addition is discarded but the sum may reach 2^64", call)
	}
	return TupleV{Top(64, false), Range(big0, big1, 64, false)}
}

func (it *Interp) leLoad(s SliceV, n int, w int) Val {
	o := it.St.Objs[s.Obj]
	if o.Kind != "arr" || o.W != 8 || s.Len < n {
		return Top(w, false)
	}
	r := Val{W: w, Lo: new(big.Int), Hi: new(big.Int)}
	r.Bits = make([]Bit, w)
	var syms []*Sym
	for j := 0; j < n; j++ {
		b := o.Vals[s.Off+j]
		for k := 0; k < 8; k++ {
			r.Bits[8*j+k] = b.bit(k)
		}
		r.Lo.Add(r.Lo, new(big.Int).Lsh(b.Lo, uint(8*j)))
		r.Hi.Add(r.Hi, new(big.Int).Lsh(b.Hi, uint(8*j)))
		syms = append(syms, b.Sym)
	}
	r.Sym = mkSym("le", w, nil, syms...)
	return it.note(r.norm())
}

func (it *Interp) leStore(s SliceV, n int, v Val) {
	o := it.St.Objs[s.Obj]
	if o.Kind != "arr" || o.W != 8 || s.Len < n {
		return
	}
	for j := 0; j < n; j++ {
		b := Val{W: 8}
		b.Bits = make([]Bit, 8)
		for k := 0; k < 8; k++ {
			b.Bits[k] = v.bit(8*j + k)
		}
		b.Lo, b.Hi = new(big.Int), big.NewInt(255)
		if v.Sym != nil {
			if v.Sym.Op == "le" && len(v.Sym.Args) == n {
				b.Sym = v.Sym.Args[j] // byte j of a little-endian composition is that byte
			} else {
				b.Sym = mkSym("byte", 8, big.NewInt(int64(j)), v.Sym)
			}
		}
		o.Vals[s.Off+j] = b.norm()
	}
}

func (it *Interp) call(f *frame, x *ssa.Call) AnyVal {
	c := x.Common()
	top := func() AnyVal {
		res := c.Signature().Results()
		mk := func(i int) AnyVal {
			if w, sg, ok := intInfo(res.At(i).Type()); ok {
				return Top(w, sg)
			}
			return OpaqueV{"result"}
		}
		switch res.Len() {
		case 0:
			return nil
		case 1:
			return mk(0)
		}
		var t TupleV
		for i := 0; i < res.Len(); i++ {
			t = append(t, mk(i))
		}
		return t
	}
	if c.IsInvoke() {
		return top()
	}
	if b, ok := c.Value.(*ssa.Builtin); ok {
		switch b.Name() {
		case "len", "cap":
			switch a := it.get(f, c.Args[0]).(type) {
			case SliceV:
				return ConstInt(int64(a.Len), 64, true)
			case PtrV:
				if o := it.St.Objs[a.Obj]; o.Kind == "arr" {
					return ConstInt(int64(len(o.Vals)), 64, true)
				}
			case NilV:
				return ConstInt(0, 64, true)
			}
			return Top(64, true)
		case "copy":
			d, ok1 := it.get(f, c.Args[0]).(SliceV)
			s, ok2 := it.get(f, c.Args[1]).(SliceV)
			if ok1 && it.St.Objs[d.Obj].Kind != "arr" {
				return Top(64, true)
			}
			if ok2 && it.St.Objs[s.Obj].Kind != "arr" {
				ok2 = false
			}
			if ok1 && ok2 {
				n := d.Len
				if s.Len < n {
					n = s.Len
				}
				do, so := it.St.Objs[d.Obj], it.St.Objs[s.Obj]
				tmp := append([]Val{}, so.Vals[s.Off:s.Off+n]...)
				copy(do.Vals[d.Off:d.Off+n], tmp)
				return ConstInt(int64(n), 64, true)
			}
			if ok1 {
				do := it.St.Objs[d.Obj]
				for i := 0; i < d.Len; i++ {
					do.Vals[d.Off+i] = Top(do.W, do.Sg)
				}
			}
			return Top(64, true)
		}
		return top()
	}
	var args []AnyVal
	for _, a := range c.Args {
		args = append(args, it.get(f, a))
	}
	var callee *ssa.Function
	var free []AnyVal
	if cv, ok := it.get(f, c.Value).(CloV); ok {
		callee, free = cv.Fn, cv.Binds
	} else {
		callee = ssau.ResolveCallee(c)
	}
	if callee == nil {
		return top()
	}
	if it.H.Summary != nil {
		if r, handled := it.H.Summary(it, callee, args, x); handled {
			return r
		}
	}
	iv := func(i int) Val {
		if i < len(args) {
			if v, ok := args[i].(Val); ok {
				return v
			}
		}
		return Top(64, false)
	}
	switch callee.String() {
	case "math/bits.Mul64":
		t := it.mul64(iv(0), iv(1))
		return TupleV{it.note(t[0].(Val)), it.note(t[1].(Val))}
	case "math/bits.Add64":
		t := it.add64(x, iv(0), iv(1), iv(2))
		return TupleV{it.note(t[0].(Val)), it.note(t[1].(Val))}
	case "(encoding/binary.littleEndian).Uint64", "(encoding/binary.littleEndian).Uint32":
		n := 8
		if callee.Name() == "Uint32" {
			n = 4
		}
		if s, ok := args[len(args)-1].(SliceV); ok {
			if s.Len < n {
				it.Err = fmt.Errorf("little-endian read of %d bytes from a %d-byte slice in %s", n, s.Len, f.fn.Name())
				return OpaqueV{"error"}
			}
			return it.leLoad(s, n, 8*n)
		}
		return Top(8*n, false)
	case "crypto/subtle.ConstantTimeCopy":
		// x[i] = y[i] when v == 1, unchanged when v == 0
		if len(args) == 3 {
			d, ok1 := args[1].(SliceV)
			sv, ok2 := args[2].(SliceV)
			if v, ok := args[0].(Val); ok && ok1 && ok2 && d.Len == sv.Len {
				do, so := it.St.Objs[d.Obj], it.St.Objs[sv.Obj]
				switch {
				case v.IsConst() && v.Int64() == 1:
					tmp := append([]Val{}, so.Vals[sv.Off:sv.Off+sv.Len]...)
					copy(do.Vals[d.Off:d.Off+d.Len], tmp)
				case v.IsConst() && v.Int64() == 0:
				default:
					for i := 0; i < d.Len; i++ {
						do.Vals[d.Off+i] = Join(do.Vals[d.Off+i], so.Vals[sv.Off+i])
					}
				}
				return nil
			}
			if ok1 {
				do := it.St.Objs[d.Obj]
				for i := 0; i < d.Len; i++ {
					do.Vals[d.Off+i] = Top(do.W, do.Sg)
				}
			}
		}
		return nil
	case "(encoding/binary.littleEndian).PutUint64", "(encoding/binary.littleEndian).PutUint32":
		n := 8
		if callee.Name() == "PutUint32" {
			n = 4
		}
		if s, ok := args[len(args)-2].(SliceV); ok {
			if s.Len < n {
				it.Err = fmt.Errorf("little-endian write of %d bytes to a %d-byte slice in %s", n, s.Len, f.fn.Name())
				return OpaqueV{"error"}
			}
			if v, ok := args[len(args)-1].(Val); ok {
				it.leStore(s, n, v)
			}
		}
		return nil
	}
	if !ssau.InModule(callee) || len(callee.Blocks) == 0 {
		// unmodelled external: written arguments become unknown
		for _, a := range args {
			switch p := a.(type) {
			case SliceV:
				o := it.St.Objs[p.Obj]
				for i := 0; i < p.Len && o.Kind == "arr"; i++ {
					o.Vals[p.Off+i] = Top(o.W, o.Sg)
				}
			}
		}
		return top()
	}
	return it.Call(callee, args, free)
}
