package absint

import (
	"math/big"

	"golang.org/x/tools/go/ssa"
	"sort"
	"strings"
)

// Sym is a hash-consed symbolic expression used only as a value number: two
// abstract values with the same Sym denote the same concrete value on every
// execution. It lets the interpreter recognise modular idioms whose parts are
// computed in different places (x-y in a caller, (x-y)>>63 in a helper).
type Sym struct {
	Op   string
	Args []*Sym
	K    *big.Int // constants
	W    int
	Key  string
}

var symTab = map[string]*Sym{}
var symFresh int

func mkSym(op string, w int, k *big.Int, args ...*Sym) *Sym {
	for _, a := range args {
		if a == nil {
			return nil
		}
	}
	var sb strings.Builder
	sb.WriteString(op)
	sb.WriteByte('/')
	sb.WriteString(itoa(w))
	if k != nil {
		sb.WriteByte('#')
		sb.WriteString(k.Text(16))
	}
	for _, a := range args {
		sb.WriteByte('(')
		sb.WriteString(a.Key)
		sb.WriteByte(')')
	}
	key := sb.String()
	if len(key) > 400 {
		// keep keys bounded: long expressions get an opaque but still canonical digest
		key = op + "/" + itoa(w) + "@" + digest(key)
	}
	if s, ok := symTab[key]; ok {
		return s
	}
	s := &Sym{Op: op, Args: args, K: k, W: w, Key: key}
	symTab[key] = s
	return s
}

func itoa(n int) string { return big.NewInt(int64(n)).String() }

func digest(s string) string {
	// FNV-1a 64 twice with different seeds is plenty for a value number
	var h1, h2 uint64 = 14695981039346656037, 1099511628211
	for i := 0; i < len(s); i++ {
		h1 ^= uint64(s[i])
		h1 *= 1099511628211
		h2 = (h2 ^ uint64(s[i])) * 14029467366897019727
	}
	return big.NewInt(0).SetUint64(h1).Text(36) + big.NewInt(0).SetUint64(h2).Text(36)
}

func symConst(u *big.Int, w int) *Sym { return mkSym("const", w, new(big.Int).Set(u)) }

// FreshSym makes a new atom.
func FreshSym(name string, w int) *Sym {
	symFresh++
	if name == "t" {
		return mkSym("tmp:"+itoa(symFresh), w, nil)
	}
	return mkSym("in:"+name, w, nil)
}

func (s *Sym) isConst() bool { return s != nil && s.Op == "const" }

func (s *Sym) isZero() bool { return s.isConst() && s.K.Sign() == 0 }

func (s *Sym) isAllOnes() bool {
	return s.isConst() && s.K.Cmp(maxOf(s.W, false)) == 0
}

// xorSet flattens a xor expression into its multiset of atoms modulo 2.
func xorSet(s *Sym, into map[string]*Sym) {
	if s.Op == "xor" {
		for _, a := range s.Args {
			xorSet(a, into)
		}
		return
	}
	if _, ok := into[s.Key]; ok {
		delete(into, s.Key)
	} else {
		into[s.Key] = s
	}
}

func symXor(a, b *Sym, w int) *Sym {
	if a == nil || b == nil {
		return nil
	}
	if a.isZero() {
		return b
	}
	if b.isZero() {
		return a
	}
	if a.isConst() && b.isConst() {
		return symConst(new(big.Int).Xor(a.K, b.K), w)
	}
	set := map[string]*Sym{}
	xorSet(a, set)
	xorSet(b, set)
	if len(set) == 0 {
		return symConst(big0, w)
	}
	var ks []string
	for k := range set {
		ks = append(ks, k)
	}
	sort.Strings(ks)
	if len(ks) == 1 {
		return set[ks[0]]
	}
	args := make([]*Sym, len(ks))
	for i, k := range ks {
		args[i] = set[k]
	}
	return mkSym("xor", w, nil, args...)
}

func symAnd(a, b *Sym, w int) *Sym {
	if a == nil || b == nil {
		return nil
	}
	if a.isZero() || b.isZero() {
		return symConst(big0, w)
	}
	if a.isAllOnes() {
		return b
	}
	if b.isAllOnes() {
		return a
	}
	if a.isConst() && b.isConst() {
		return symConst(new(big.Int).And(a.K, b.K), w)
	}
	if a.Key == b.Key {
		return a
	}
	if a.Key > b.Key {
		a, b = b, a
	}
	return mkSym("and", w, nil, a, b)
}

func symOr(a, b *Sym, w int) *Sym {
	if a == nil || b == nil {
		return nil
	}
	if a.isZero() {
		return b
	}
	if b.isZero() {
		return a
	}
	if a.isAllOnes() || b.isAllOnes() {
		return symConst(maxOf(w, false), w)
	}
	if a.isConst() && b.isConst() {
		return symConst(new(big.Int).Or(a.K, b.K), w)
	}
	if a.Key == b.Key {
		return a
	}
	if a.Key > b.Key {
		a, b = b, a
	}
	return mkSym("or", w, nil, a, b)
}

func symBin(op string, a, b *Sym, w int) *Sym {
	if a == nil || b == nil {
		return nil
	}
	switch op {
	case "add":
		if a.isZero() {
			return b
		}
		if b.isZero() {
			return a
		}
		if a.Key > b.Key {
			a, b = b, a
		}
	case "sub":
		if b.isZero() {
			return a
		}
	case "mul":
		if a.Key > b.Key {
			a, b = b, a
		}
	}
	return mkSym(op, w, nil, a, b)
}

func symUn(op string, a *Sym, w int) *Sym {
	if a == nil {
		return nil
	}
	return mkSym(op, w, nil, a)
}

func symShift(op string, a *Sym, k int, w int) *Sym {
	if a == nil {
		return nil
	}
	if k == 0 {
		return a
	}
	return mkSym(op, w, big.NewInt(int64(k)), a)
}

// ResetGlobals drops the process-wide tables (value numbers, index-site registry); called between properties so that a
// run over all properties does not accumulate them.
func ResetGlobals() {
	symTab = map[string]*Sym{}
	symFresh = 0
	IndexConcrete = map[*ssa.IndexAddr]bool{}
	IndexAbstract = map[*ssa.IndexAddr]bool{}
}
