package absint

import (
	"math/big"
	"sort"
	"strconv"
	"strings"
)

// Poly is an exact integer polynomial over input variables and carry variables. A Val that carries a Poly has, on
// every execution, exactly the mathematical (not modular) value of that polynomial: every transfer function either
// proves from the intervals that the machine operation did not wrap, or introduces a fresh carry variable c for the
// dropped part (x >> k = c, x & (2^k-1) = x - c·2^k, both for the same c), or drops the polynomial.
// It is used to check algebraic identities (Σ out_i·2^w_i ≡ spec mod p) without running anything and without a solver:
// the check is coefficient-wise.
type Poly struct {
	T map[string]*big.Int // monomial (variables joined by '*', sorted; "" = constant) -> coefficient
	k string              // memoised canonical key
}

func PolyConst(c *big.Int) *Poly {
	p := &Poly{T: map[string]*big.Int{}}
	if c.Sign() != 0 {
		p.T[""] = new(big.Int).Set(c)
	}
	return p
}

func PolyVar(name string) *Poly {
	return &Poly{T: map[string]*big.Int{name: big.NewInt(1)}}
}

func (p *Poly) clone() *Poly {
	q := &Poly{T: make(map[string]*big.Int, len(p.T))}
	for m, c := range p.T {
		q.T[m] = c
	}
	return q
}

func (p *Poly) addTerm(m string, c *big.Int) {
	if old, ok := p.T[m]; ok {
		s := new(big.Int).Add(old, c)
		if s.Sign() == 0 {
			delete(p.T, m)
		} else {
			p.T[m] = s
		}
	} else if c.Sign() != 0 {
		p.T[m] = c
	}
}

// PolyAdd returns a + k*b.
func PolyAdd(a, b *Poly, k int64) *Poly {
	if a == nil || b == nil {
		return nil
	}
	r := a.clone()
	kk := big.NewInt(k)
	for m, c := range b.T {
		r.addTerm(m, new(big.Int).Mul(c, kk))
	}
	return r
}

// PolyScale returns a * c.
func PolyScale(a *Poly, c *big.Int) *Poly {
	if a == nil {
		return nil
	}
	r := &Poly{T: map[string]*big.Int{}}
	if c.Sign() == 0 {
		return r
	}
	for m, x := range a.T {
		r.T[m] = new(big.Int).Mul(x, c)
	}
	return r
}

func mulMono(a, b string) string {
	if a == "" {
		return b
	}
	if b == "" {
		return a
	}
	vs := append(strings.Split(a, "*"), strings.Split(b, "*")...)
	sort.Strings(vs)
	// boolean variables (names starting with "B") are idempotent
	out := vs[:0]
	for i, v := range vs {
		if i > 0 && v == vs[i-1] && strings.HasPrefix(v, "B") {
			continue
		}
		out = append(out, v)
	}
	return strings.Join(out, "*")
}

// MaxPolyTerms bounds polynomial size; larger products drop the polynomial.
const MaxPolyTerms = 4000

func PolyMul(a, b *Poly) *Poly {
	if a == nil || b == nil {
		return nil
	}
	if len(a.T)*len(b.T) > MaxPolyTerms {
		return nil
	}
	r := &Poly{T: map[string]*big.Int{}}
	for ma, ca := range a.T {
		for mb, cb := range b.T {
			r.addTerm(mulMono(ma, mb), new(big.Int).Mul(ca, cb))
		}
	}
	return r
}

// Key is a canonical rendering (equal polynomials have equal keys).
func (p *Poly) Key() string {
	if p.k != "" {
		return p.k
	}
	ms := make([]string, 0, len(p.T))
	for m := range p.T {
		ms = append(ms, m)
	}
	sort.Strings(ms)
	var sb strings.Builder
	for _, m := range ms {
		sb.WriteString(p.T[m].Text(16))
		sb.WriteByte('.')
		sb.WriteString(m)
		sb.WriteByte(';')
	}
	s := sb.String()
	if len(s) > 200 {
		s = "h" + digest(s) + strconv.Itoa(len(s))
	}
	if s == "" {
		s = "0"
	}
	p.k = s
	return s
}

// IsZero reports the zero polynomial.
func (p *Poly) IsZero() bool { return p != nil && len(p.T) == 0 }

// String renders a few terms for messages.
func (p *Poly) String() string {
	if p == nil {
		return "unknown"
	}
	ms := make([]string, 0, len(p.T))
	for m := range p.T {
		ms = append(ms, m)
	}
	sort.Strings(ms)
	var parts []string
	for i, m := range ms {
		if i >= 4 {
			parts = append(parts, "…")
			break
		}
		c := p.T[m]
		cs := c.String()
		if c.BitLen() > 20 {
			cs = "0x" + c.Text(16)
		}
		if m == "" {
			parts = append(parts, cs)
		} else {
			parts = append(parts, cs+"·"+m)
		}
	}
	if len(parts) == 0 {
		return "0"
	}
	return strings.Join(parts, " + ")
}

// ReduceCoeffs returns the polynomial with every coefficient reduced modulo m (zero terms dropped).
func (p *Poly) ReduceCoeffs(m *big.Int) *Poly {
	r := &Poly{T: map[string]*big.Int{}}
	for k, c := range p.T {
		x := new(big.Int).Mod(c, m)
		if x.Sign() != 0 {
			r.T[k] = x
		}
	}
	return r
}

// ---- interpreter side

func (it *Interp) polyOf(v Val) *Poly {
	if !it.H.Polys {
		return nil
	}
	if v.Poly != nil {
		return v.Poly
	}
	if v.Lo != nil && v.IsConst() {
		return PolyConst(v.Lo)
	}
	return nil
}

type splitInfo struct {
	q *Poly
	j int
}

// sliceInfo says that a polynomial is the bit slice  floor(q / 2^lo) mod 2^(hi-lo)  of q (hi < 0: no upper cut).
// All splitting of values goes through slice(), which keeps one normal form per (q, lo, hi): slices of slices compose,
// common powers of two are divided out, and the carry variable of (q, k) is shared by every spelling of that quantity.
type sliceInfo struct {
	q      *Poly
	lo, hi int
	res    *Poly
}

func (it *Interp) initCarries() {
	if it.carries == nil {
		it.carries = map[string]string{}
		it.highOf = map[string]splitInfo{}
		it.lowOf = map[string]splitInfo{}
		it.slices = map[string]sliceInfo{}
	}
}

// carryVar returns the variable standing for floor(p / 2^k), p already in normal form (not itself a slice).
func (it *Interp) carryVar(p *Poly, k int) *Poly {
	it.initCarries()
	if k == 0 {
		return p
	}
	key := p.Key() + ">>" + strconv.Itoa(k)
	name, ok := it.carries[key]
	if !ok {
		name = "c" + strconv.Itoa(len(it.carries))
		it.carries[key] = name
		it.highOf[name] = splitInfo{p, k}
	}
	return PolyVar(name)
}

// divisible reports whether every coefficient of p is a multiple of 2^k, and returns p / 2^k.
func divisible(p *Poly, k int) (*Poly, bool) {
	r := &Poly{T: map[string]*big.Int{}}
	for m, c := range p.T {
		if c.TrailingZeroBits() < uint(k) {
			return nil, false
		}
		r.T[m] = new(big.Int).Rsh(c, uint(k)) // exact: low k bits are zero (Rsh on negatives floors, which is exact here)
	}
	return r, true
}

func commonTwos(p *Poly, max int) int {
	j := max
	for _, c := range p.T {
		if tz := int(c.TrailingZeroBits()); tz < j {
			j = tz
		}
	}
	if len(p.T) == 0 {
		return 0
	}
	return j
}

// slice returns the polynomial of floor(q / 2^lo) mod 2^(hi-lo) (hi < 0: floor(q / 2^lo)).
func (it *Interp) bitSlice(q *Poly, lo, hi int) *Poly {
	it.initCarries()
	it.sliceDepth++
	defer func() { it.sliceDepth-- }()
	if q == nil {
		return nil
	}
	if hi >= 0 && hi <= lo {
		return PolyConst(big0)
	}
	if len(q.T) == 0 {
		return q
	}
	// a slice of a slice
	if si, ok := it.slices[q.Key()]; ok {
		nlo := si.lo + lo
		nhi := si.hi
		if hi >= 0 && (nhi < 0 || si.lo+hi < nhi) {
			nhi = si.lo + hi
		}
		return it.bitSlice(si.q, nlo, nhi)
	}
	// divide out common powers of two
	lim := lo
	if hi >= 0 {
		lim = hi
	}
	if lim > 0 {
		if j := commonTwos(q, lim); j > 0 {
			qq, _ := divisible(q, j)
			switch {
			case lo >= j:
				nhi := hi
				if hi >= 0 {
					nhi = hi - j
				}
				return it.bitSlice(qq, lo-j, nhi)
			case lo == 0:
				// hi > j here (hi <= j would make j == hi and the slice zero)
				if hi >= 0 && hi <= j {
					return PolyConst(big0)
				}
				nhi := hi
				if hi >= 0 {
					nhi = hi - j
				}
				return PolyScale(it.bitSlice(qq, 0, nhi), pow2(j))
			}
		}
	}
	// q = A + 2^w·B with A a known bit slice of width w (a packed bit-field): the low field drops out of higher slices
	// and passes through lower cuts unchanged
	if len(q.T) > 1 && len(it.slices) < 6000 && it.sliceDepth < 24 {
		var best *sliceInfo
		bestKey := ""
		for key, si := range it.slices {
			if si.hi < 0 || si.res == nil || si.q.Key() == q.Key() {
				continue
			}
			w := si.hi - si.lo
			if w <= 0 || w >= lim {
				continue
			}
			d := PolyAdd(q, si.res, -1)
			if len(d.T) == 0 || commonTwos(d, w) < w {
				continue
			}
			if best == nil || w > best.hi-best.lo || (w == best.hi-best.lo && key < bestKey) {
				c := si
				best, bestKey = &c, key
			}
		}
		if best != nil {
			w := best.hi - best.lo
			bq, _ := divisible(PolyAdd(q, best.res, -1), w)
			switch {
			case lo >= w:
				nhi := hi
				if hi >= 0 {
					nhi = hi - w
				}
				return it.bitSlice(bq, lo-w, nhi)
			case lo == 0 && hi > w:
				return PolyAdd(best.res, PolyScale(it.bitSlice(bq, 0, hi-w), pow2(w)), 1)
			}
		}
	}
	var res *Poly
	if lo == 0 {
		res = q
	} else {
		res = it.carryVar(q, lo)
	}
	if hi >= 0 {
		res = PolyAdd(res, PolyScale(it.carryVar(q, hi), pow2(hi-lo)), -1)
	}
	if lo != 0 || hi >= 0 {
		if _, seen := it.slices[res.Key()]; !seen {
			it.slices[res.Key()] = sliceInfo{q, lo, hi, res}
		}
	}
	return res
}

// polyLow returns x mod 2^k for a value x with polynomial p and range [0, hi].
func (it *Interp) polyLow(p *Poly, hi *big.Int, k int) *Poly {
	if p == nil {
		return nil
	}
	if hi.BitLen() <= k {
		return p
	}
	return it.bitSlice(p, 0, k)
}

// polyHigh returns floor(x / 2^k).
func (it *Interp) polyHigh(p *Poly, hi *big.Int, k int) *Poly {
	if p == nil {
		return nil
	}
	if hi.BitLen() <= k {
		return PolyConst(big0)
	}
	return it.bitSlice(p, k, -1)
}

// contiguousMask decomposes m = 2^hi - 2^lo.
func contiguousMask(m *big.Int) (lo, hi int, ok bool) {
	if m.Sign() <= 0 {
		return 0, 0, false
	}
	lo = int(m.TrailingZeroBits())
	t := new(big.Int).Rsh(m, uint(lo))
	t.Add(t, big1)
	if t.BitLen()-1 != int(t.TrailingZeroBits()) {
		return 0, 0, false
	}
	return lo, lo + t.BitLen() - 1, true
}

// boolVar returns the 0/1 variable standing for the truth value keyed by key (names start with "B": idempotent in products).
func (it *Interp) boolVar(key string) *Poly {
	if it.bools == nil {
		it.bools = map[string]string{}
	}
	name, ok := it.bools[key]
	if !ok {
		name = "B" + strconv.Itoa(len(it.bools))
		it.bools[key] = name
	}
	return PolyVar(name)
}

// polyLowMod is x mod 2^k for a value known only modulo 2^W (k <= W): no interval shortcut is allowed.
func (it *Interp) polyLowMod(p *Poly, k int) *Poly {
	if p == nil {
		return nil
	}
	return it.bitSlice(p, 0, k)
}

// polyBin computes the polynomial of r = a op b. mod reports that the polynomial equals the value only modulo 2^W
// (the machine operation may have wrapped); such values may be added, subtracted, shifted left and masked, nothing else.
func (it *Interp) polyBin(op string, a, b, r Val, k int) (res *Poly, mod bool) {
	if !it.H.Polys || a.Lo == nil || b.Lo == nil {
		return nil, false
	}
	pa, pb := it.polyOf(a), it.polyOf(b)
	am, bm := a.PolyMod && a.Poly != nil, b.PolyMod && b.Poly != nil
	sg := a.Signed
	min, max := minOf(a.W, sg), maxOf(a.W, sg)
	fits := func(lo, hi *big.Int) bool { return lo.Cmp(min) >= 0 && hi.Cmp(max) <= 0 }
	// a result that may wrap is kept modulo 2^W for unsigned types only (the recognised borrow idioms); signed wraps drop it
	wrapped := func(p *Poly) (*Poly, bool) {
		if sg {
			return nil, false
		}
		return p, true
	}
	nonneg := func(v Val) bool { return v.Lo.Sign() >= 0 }
	switch op {
	case "add":
		if pa == nil || pb == nil {
			return nil, false
		}
		sum := PolyAdd(pa, pb, 1)
		if !am && !bm && fits(new(big.Int).Add(a.Lo, b.Lo), new(big.Int).Add(a.Hi, b.Hi)) {
			return sum, false
		}
		return wrapped(sum)
	case "sub":
		if pa == nil || pb == nil {
			return nil, false
		}
		d := PolyAdd(pa, pb, -1)
		if !am && !bm && fits(new(big.Int).Sub(a.Lo, b.Hi), new(big.Int).Sub(a.Hi, b.Lo)) {
			return d, false
		}
		return wrapped(d)
	case "mul":
		if pa == nil || pb == nil || am || bm {
			return nil, false
		}
		c := []*big.Int{new(big.Int).Mul(a.Lo, b.Lo), new(big.Int).Mul(a.Lo, b.Hi), new(big.Int).Mul(a.Hi, b.Lo), new(big.Int).Mul(a.Hi, b.Hi)}
		lo, hi := c[0], c[0]
		for _, x := range c[1:] {
			if x.Cmp(lo) < 0 {
				lo = x
			}
			if x.Cmp(hi) > 0 {
				hi = x
			}
		}
		if !fits(lo, hi) {
			return nil, false
		}
		return PolyMul(pa, pb), false
	case "shl":
		if pa == nil {
			return nil, false
		}
		sc := PolyScale(pa, pow2(k))
		if !am && fits(new(big.Int).Lsh(a.Lo, uint(k)), new(big.Int).Lsh(a.Hi, uint(k))) {
			return sc, false
		}
		return wrapped(sc)
	case "shr":
		// floor division; Go's >> on signed values is arithmetic, i.e. floor as well
		if am || pa == nil {
			return nil, false
		}
		if nonneg(a) {
			return it.polyHigh(pa, a.Hi, k), false
		}
		return it.bitSlice(pa, k, -1), false
	case "low":
		if pa == nil {
			return nil, false
		}
		if am || !nonneg(a) {
			return it.polyLowMod(pa, k), false
		}
		return it.polyLow(pa, a.Hi, k), false
	case "and":
		x, px, m, xm := a, pa, b, am
		if a.IsConst() && !b.IsConst() {
			x, px, m, xm = b, pb, a, bm
		}
		if !m.IsConst() || px == nil || m.Lo.Sign() < 0 {
			return nil, false
		}
		lo, hi, ok := contiguousMask(m.Lo)
		if !ok {
			if m.Lo.Sign() == 0 {
				return PolyConst(big0), false
			}
			return nil, false
		}
		if hi > x.W || (x.Signed && hi >= x.W) {
			return nil, false
		}
		// two's complement: x & (2^hi - 1) is x mod 2^hi (floor) also for negative x
		low := func(k int) *Poly {
			if xm || !nonneg(x) {
				return it.polyLowMod(px, k)
			}
			return it.polyLow(px, x.Hi, k)
		}
		// (x mod 2^hi) - (x mod 2^lo)
		if lo == 0 {
			return low(hi), false
		}
		return PolyAdd(low(hi), low(lo), -1), false
	case "or":
		if pa == nil || pb == nil || !nonneg(a) || !nonneg(b) {
			return nil, false
		}
		if new(big.Int).And(a.mayBits(), b.mayBits()).Sign() != 0 {
			return nil, false
		}
		// bit-disjoint machine values add without carry; a modular operand makes the sum modular
		return PolyAdd(pa, pb, 1), am || bm
	}
	return nil, false
}

// LowBits returns the polynomial of v mod 2^k (for rules that need a sub-field of a stored value).
func (it *Interp) LowBits(v Val, k int) *Poly {
	p := it.polyOf(v)
	if p == nil {
		return nil
	}
	if v.PolyMod {
		return it.polyLowMod(p, k)
	}
	return it.polyLow(p, v.Hi, k)
}

// Describe explains the carry / boolean variables that occur in p (for diagnostics).
func (it *Interp) Describe(p *Poly) string {
	if p == nil {
		return ""
	}
	seen := map[string]bool{}
	var out []string
	for m := range p.T {
		for _, v := range strings.Split(m, "*") {
			if seen[v] || v == "" {
				continue
			}
			seen[v] = true
			if si, ok := it.highOf[v]; ok {
				out = append(out, v+" = floor(("+si.q.String()+") / 2^"+strconv.Itoa(si.j)+")")
			}
		}
	}
	sort.Strings(out)
	if len(out) > 6 {
		out = out[:6]
	}
	return strings.Join(out, "; ")
}
