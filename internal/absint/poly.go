package absint

import (
	"math/big"
	"sort"
	"strconv"
	"strings"
)

// Poly is an exact integer polynomial over input variables and carry variables. A Val that carries a Poly has, on
// every execution, exactly the mathematical (not modular) value of that polynomial: every transfer function either
// proves from the intervals that the machine operation did not wrap, or introduces a fresh carry variable c for the
// dropped part (x >> k = c, x & (2^k-1) = x - c·2^k, both for the same c), or drops the polynomial.
// It is used to check algebraic identities (Σ out_i·2^w_i ≡ spec mod p) without running anything and without a solver:
// the check is coefficient-wise.
type Poly struct {
	T map[string]*big.Int // monomial (variables joined by '*', sorted; "" = constant) -> coefficient
	k string              // memoised canonical key
}

func PolyConst(c *big.Int) *Poly {
	p := &Poly{T: map[string]*big.Int{}}
	if c.Sign() != 0 {
		p.T[""] = new(big.Int).Set(c)
	}
	return p
}

func PolyVar(name string) *Poly {
	return &Poly{T: map[string]*big.Int{name: big.NewInt(1)}}
}

func (p *Poly) clone() *Poly {
	q := &Poly{T: make(map[string]*big.Int, len(p.T))}
	for m, c := range p.T {
		q.T[m] = c
	}
	return q
}

func (p *Poly) addTerm(m string, c *big.Int) {
	if old, ok := p.T[m]; ok {
		s := new(big.Int).Add(old, c)
		if s.Sign() == 0 {
			delete(p.T, m)
		} else {
			p.T[m] = s
		}
	} else if c.Sign() != 0 {
		p.T[m] = c
	}
}

// PolyAdd returns a + k*b.
func PolyAdd(a, b *Poly, k int64) *Poly {
	if a == nil || b == nil {
		return nil
	}
	r := a.clone()
	kk := big.NewInt(k)
	for m, c := range b.T {
		r.addTerm(m, new(big.Int).Mul(c, kk))
	}
	return r
}

// PolyScale returns a * c.
func PolyScale(a *Poly, c *big.Int) *Poly {
	if a == nil {
		return nil
	}
	r := &Poly{T: map[string]*big.Int{}}
	if c.Sign() == 0 {
		return r
	}
	for m, x := range a.T {
		r.T[m] = new(big.Int).Mul(x, c)
	}
	return r
}

func mulMono(a, b string) string {
	if a == "" {
		return b
	}
	if b == "" {
		return a
	}
	vs := append(strings.Split(a, "*"), strings.Split(b, "*")...)
	sort.Strings(vs)
	return strings.Join(vs, "*")
}

// MaxPolyTerms bounds polynomial size; larger products drop the polynomial.
const MaxPolyTerms = 4000

func PolyMul(a, b *Poly) *Poly {
	if a == nil || b == nil {
		return nil
	}
	if len(a.T)*len(b.T) > MaxPolyTerms {
		return nil
	}
	r := &Poly{T: map[string]*big.Int{}}
	for ma, ca := range a.T {
		for mb, cb := range b.T {
			r.addTerm(mulMono(ma, mb), new(big.Int).Mul(ca, cb))
		}
	}
	return r
}

// Key is a canonical rendering (equal polynomials have equal keys).
func (p *Poly) Key() string {
	if p.k != "" {
		return p.k
	}
	ms := make([]string, 0, len(p.T))
	for m := range p.T {
		ms = append(ms, m)
	}
	sort.Strings(ms)
	var sb strings.Builder
	for _, m := range ms {
		sb.WriteString(p.T[m].Text(16))
		sb.WriteByte('.')
		sb.WriteString(m)
		sb.WriteByte(';')
	}
	s := sb.String()
	if len(s) > 200 {
		s = "h" + digest(s) + strconv.Itoa(len(s))
	}
	if s == "" {
		s = "0"
	}
	p.k = s
	return s
}

// IsZero reports the zero polynomial.
func (p *Poly) IsZero() bool { return p != nil && len(p.T) == 0 }

// String renders a few terms for messages.
func (p *Poly) String() string {
	if p == nil {
		return "unknown"
	}
	ms := make([]string, 0, len(p.T))
	for m := range p.T {
		ms = append(ms, m)
	}
	sort.Strings(ms)
	var parts []string
	for i, m := range ms {
		if i >= 4 {
			parts = append(parts, "…")
			break
		}
		c := p.T[m]
		cs := c.String()
		if c.BitLen() > 20 {
			cs = "0x" + c.Text(16)
		}
		if m == "" {
			parts = append(parts, cs)
		} else {
			parts = append(parts, cs+"·"+m)
		}
	}
	if len(parts) == 0 {
		return "0"
	}
	return strings.Join(parts, " + ")
}

// ReduceCoeffs returns the polynomial with every coefficient reduced modulo m (zero terms dropped).
func (p *Poly) ReduceCoeffs(m *big.Int) *Poly {
	r := &Poly{T: map[string]*big.Int{}}
	for k, c := range p.T {
		x := new(big.Int).Mod(c, m)
		if x.Sign() != 0 {
			r.T[k] = x
		}
	}
	return r
}

// ---- interpreter side

func (it *Interp) polyOf(v Val) *Poly {
	if !it.H.Polys {
		return nil
	}
	if v.Poly != nil {
		return v.Poly
	}
	if v.Lo != nil && v.IsConst() && v.Lo.Sign() >= 0 {
		return PolyConst(v.Lo)
	}
	return nil
}

type splitInfo struct {
	q *Poly
	j int
}

// carryVar returns the variable standing for floor(p / 2^k).
func (it *Interp) carryVar(p *Poly, k int) *Poly {
	if it.carries == nil {
		it.carries = map[string]string{}
		it.highOf = map[string]splitInfo{}
		it.lowOf = map[string]splitInfo{}
	}
	key := p.Key() + ">>" + strconv.Itoa(k)
	name, ok := it.carries[key]
	if !ok {
		name = "c" + strconv.Itoa(len(it.carries))
		it.carries[key] = name
		it.highOf[name] = splitInfo{p, k}
	}
	return PolyVar(name)
}

// divisible reports whether every coefficient of p is a multiple of 2^k, and returns p / 2^k.
func divisible(p *Poly, k int) (*Poly, bool) {
	r := &Poly{T: map[string]*big.Int{}}
	for m, c := range p.T {
		if c.TrailingZeroBits() < uint(k) {
			return nil, false
		}
		r.T[m] = new(big.Int).Rsh(c, uint(k)) // exact: low k bits are zero (Rsh on negatives floors, which is exact here)
	}
	return r, true
}

// polyLow returns x mod 2^k for a value x with polynomial p and range [0, hi].
func (it *Interp) polyLow(p *Poly, hi *big.Int, k int) *Poly {
	if p == nil {
		return nil
	}
	if hi.BitLen() <= k {
		return p
	}
	if _, ok := divisible(p, k); ok {
		return PolyConst(big0)
	}
	// (q mod 2^j) mod 2^k = q mod 2^k for k <= j
	if si, ok := it.lowOf[p.Key()]; ok && k <= si.j {
		p = si.q
	}
	low := PolyAdd(p, PolyScale(it.carryVar(p, k), pow2(k)), -1)
	if _, seen := it.lowOf[low.Key()]; !seen {
		it.lowOf[low.Key()] = splitInfo{p, k}
	}
	return low
}

// polyHigh returns floor(x / 2^k).
func (it *Interp) polyHigh(p *Poly, hi *big.Int, k int) *Poly {
	if p == nil {
		return nil
	}
	if hi.BitLen() <= k {
		return PolyConst(big0)
	}
	if k == 0 {
		return p
	}
	if q, ok := divisible(p, k); ok {
		return q
	}
	// floor(floor(q/2^j) / 2^k) = floor(q / 2^(j+k))
	if len(p.T) == 1 {
		for m, c := range p.T {
			if si, ok := it.highOf[m]; ok && c.Cmp(big1) == 0 {
				return it.carryVar(si.q, si.j+k)
			}
		}
	}
	// floor((q mod 2^j) / 2^k) = floor(q/2^k) - 2^(j-k)·floor(q/2^j) for k < j
	if si, ok := it.lowOf[p.Key()]; ok && k < si.j {
		return PolyAdd(it.carryVar(si.q, k), PolyScale(it.carryVar(si.q, si.j), pow2(si.j-k)), -1)
	}
	return it.carryVar(p, k)
}

// contiguousMask decomposes m = 2^hi - 2^lo.
func contiguousMask(m *big.Int) (lo, hi int, ok bool) {
	if m.Sign() <= 0 {
		return 0, 0, false
	}
	lo = int(m.TrailingZeroBits())
	t := new(big.Int).Rsh(m, uint(lo))
	t.Add(t, big1)
	if t.BitLen()-1 != int(t.TrailingZeroBits()) {
		return 0, 0, false
	}
	return lo, lo + t.BitLen() - 1, true
}

// polyBin computes the polynomial of r = a op b (unsigned, non-wrapping cases only).
func (it *Interp) polyBin(op string, a, b, r Val, k int) *Poly {
	if !it.H.Polys || a.Signed || a.Lo == nil || b.Lo == nil {
		return nil
	}
	pa, pb := it.polyOf(a), it.polyOf(b)
	max := maxOf(a.W, false)
	switch op {
	case "add":
		if pa == nil || pb == nil || new(big.Int).Add(a.Hi, b.Hi).Cmp(max) > 0 {
			return nil
		}
		return PolyAdd(pa, pb, 1)
	case "sub":
		if pa == nil || pb == nil || a.Lo.Cmp(b.Hi) < 0 {
			return nil
		}
		return PolyAdd(pa, pb, -1)
	case "mul":
		if pa == nil || pb == nil || new(big.Int).Mul(a.Hi, b.Hi).Cmp(max) > 0 {
			return nil
		}
		return PolyMul(pa, pb)
	case "shl":
		if pa == nil || new(big.Int).Lsh(a.Hi, uint(k)).Cmp(max) > 0 {
			return nil
		}
		return PolyScale(pa, pow2(k))
	case "shr":
		return it.polyHigh(pa, a.Hi, k)
	case "low":
		return it.polyLow(pa, a.Hi, k)
	case "and":
		x, px, m := a, pa, b
		if a.IsConst() && !b.IsConst() {
			x, px, m = b, pb, a
		}
		if !m.IsConst() || px == nil {
			return nil
		}
		lo, hi, ok := contiguousMask(m.Lo)
		if !ok {
			if m.Lo.Sign() == 0 {
				return PolyConst(big0)
			}
			return nil
		}
		// (x mod 2^hi) - (x mod 2^lo)
		if lo == 0 {
			return it.polyLow(px, x.Hi, hi)
		}
		return PolyAdd(it.polyLow(px, x.Hi, hi), it.polyLow(px, x.Hi, lo), -1)
	case "or":
		if pa == nil || pb == nil {
			return nil
		}
		if new(big.Int).And(a.mayBits(), b.mayBits()).Sign() != 0 {
			return nil
		}
		return PolyAdd(pa, pb, 1)
	}
	return nil
}

