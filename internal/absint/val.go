// Package absint is an abstract interpreter for the integer / array subset of
// go/ssa used by the arithmetic packages. Abstract values are a reduced
// product of (1) an integer interval over the mathematical value, (2) a
// per-bit provenance vector (known 0, known 1, "is bit k of input x", or
// unknown) and (3) a value number used to recognise modular idioms (borrow
// compensation, select-by-mask). Loop counters are concrete, so counted loops
// unroll by themselves; everything derived from abstract inputs stays abstract.
// It never executes repository code and calls no solver: every transfer
// function is an over-approximation.
package absint

import (
	"fmt"
	"math/big"
)

// Bit is the provenance of one bit: 0 known zero, 1 known one, -1 unknown, >= 2 an input bit id.
type Bit int32

const (
	BZero Bit = 0
	BOne  Bit = 1
	BTop  Bit = -1
)

// Wide links the two halves of a 128-bit quantity (product or accumulator) kept in two uint64 values.
type Wide struct {
	ID     int
	Lo, Hi *big.Int // range of the 128-bit mathematical value
}

// Val is an abstract integer (or bool, width 1).
type Val struct {
	Lo, Hi  *big.Int
	Bits    []Bit // little-endian, len == W (nil: all unknown)
	W       int
	Signed  bool
	Sym     *Sym
	Mask    bool  // value is 0 or all-ones
	Wide    *Wide // this value is the low (Part 0) or high (Part 1) half of Wide
	Part    int
	CarryOf *Wide // this value is the carry out of the low-half addition that formed CarryOf
	Poly    *Poly // exact integer value as a polynomial over inputs and carry variables (nil: unknown); see poly.go
	PolyMod bool  // Poly equals the value only modulo 2^W (a wrapping intermediate of a recognised modular idiom)
}

var (
	big0 = big.NewInt(0)
	big1 = big.NewInt(1)
)

func pow2(k int) *big.Int { return new(big.Int).Lsh(big1, uint(k)) }

func maxOf(w int, signed bool) *big.Int {
	if signed {
		return new(big.Int).Sub(pow2(w-1), big1)
	}
	return new(big.Int).Sub(pow2(w), big1)
}

func minOf(w int, signed bool) *big.Int {
	if signed {
		return new(big.Int).Neg(pow2(w - 1))
	}
	return new(big.Int)
}

// Top is the unconstrained value of a type.
func Top(w int, signed bool) Val {
	return Val{Lo: minOf(w, signed), Hi: maxOf(w, signed), W: w, Signed: signed}
}

// Const makes a singleton.
func Const(v *big.Int, w int, signed bool) Val {
	x := Val{Lo: new(big.Int).Set(v), Hi: new(big.Int).Set(v), W: w, Signed: signed}
	x.Bits = make([]Bit, w)
	u := new(big.Int).Set(v)
	if u.Sign() < 0 {
		u.Add(u, pow2(w))
	}
	for i := 0; i < w; i++ {
		x.Bits[i] = Bit(u.Bit(i))
	}
	x.Sym = symConst(u, w)
	allOnes := u.Cmp(maxOf(w, false)) == 0
	x.Mask = u.Sign() == 0 || allOnes
	return x
}

// ConstInt makes a singleton from an int64.
func ConstInt(v int64, w int, signed bool) Val { return Const(big.NewInt(v), w, signed) }

// Range makes an interval value.
func Range(lo, hi *big.Int, w int, signed bool) Val {
	v := Val{Lo: new(big.Int).Set(lo), Hi: new(big.Int).Set(hi), W: w, Signed: signed}
	return v.norm()
}

// IsConst reports a singleton.
func (v Val) IsConst() bool { return v.Lo != nil && v.Lo.Cmp(v.Hi) == 0 }

// Int64 returns the singleton value.
func (v Val) Int64() int64 { return v.Lo.Int64() }

func (v Val) bit(i int) Bit {
	if v.Bits == nil || i >= len(v.Bits) {
		if i >= v.W {
			return BZero
		}
		return BTop
	}
	return v.Bits[i]
}

// norm reduces the product: interval -> bits (high zeros / constants) and bits -> interval.
func (v Val) norm() Val {
	if v.Lo.Cmp(minOf(v.W, v.Signed)) < 0 {
		v.Lo = minOf(v.W, v.Signed)
	}
	if v.Hi.Cmp(maxOf(v.W, v.Signed)) > 0 {
		v.Hi = maxOf(v.W, v.Signed)
	}
	if v.Signed {
		if v.IsConst() {
			c := Const(v.Lo, v.W, true)
			c.Sym = v.Sym
			if c.Sym == nil {
				c = Const(v.Lo, v.W, true)
			}
			return c
		}
		if v.Lo.Sign() >= 0 {
			// non-negative signed values behave like unsigned ones: refine both ways
			if v.Bits == nil {
				v.Bits = topBits(v.W)
			} else {
				v.Bits = append([]Bit{}, v.Bits...)
			}
			minB, maxB := new(big.Int), new(big.Int)
			for i := 0; i < v.W-1; i++ {
				switch v.Bits[i] {
				case BOne:
					minB.SetBit(minB, i, 1)
					maxB.SetBit(maxB, i, 1)
				case BZero:
				default:
					maxB.SetBit(maxB, i, 1)
				}
			}
			if minB.Cmp(v.Lo) > 0 {
				v.Lo = minB
			}
			if maxB.Cmp(v.Hi) < 0 {
				v.Hi = maxB
			}
			n := v.Hi.BitLen()
			for i := n; i < v.W; i++ {
				v.Bits[i] = BZero
			}
			if v.IsConst() {
				return Const(v.Lo, v.W, true)
			}
		}
		return v
	}
	// unsigned
	if v.Bits != nil {
		minB, maxB := new(big.Int), new(big.Int)
		for i := 0; i < v.W && i < len(v.Bits); i++ {
			switch v.Bits[i] {
			case BOne:
				minB.SetBit(minB, i, 1)
				maxB.SetBit(maxB, i, 1)
			case BZero:
			default:
				maxB.SetBit(maxB, i, 1)
			}
		}
		if minB.Cmp(v.Lo) > 0 {
			v.Lo = minB
		}
		if maxB.Cmp(v.Hi) < 0 {
			v.Hi = maxB
		}
	}
	if v.Lo.Cmp(v.Hi) > 0 {
		// inconsistent (unreachable): collapse to the interval's low end conservatively
		v.Hi = new(big.Int).Set(v.Lo)
	}
	n := v.Hi.BitLen()
	if n < v.W {
		if v.Bits == nil {
			v.Bits = topBits(v.W)
		} else {
			v.Bits = append([]Bit{}, v.Bits...)
		}
		for i := n; i < v.W; i++ {
			v.Bits[i] = BZero
		}
	}
	if v.IsConst() {
		c := Const(v.Lo, v.W, false)
		if v.Sym != nil && v.Sym.Op != "const" {
			// keep identity information only if it says more than the constant
		}
		c.Wide, c.Part, c.CarryOf = v.Wide, v.Part, v.CarryOf
		return c
	}
	return v
}

func topBits(w int) []Bit {
	b := make([]Bit, w)
	for i := range b {
		b[i] = BTop
	}
	return b
}

// mayBits returns the mask of bits that may be set.
func (v Val) mayBits() *big.Int {
	m := new(big.Int)
	for i := 0; i < v.W; i++ {
		if v.bit(i) != BZero {
			m.SetBit(m, i, 1)
		}
	}
	return m
}

// Join is the least upper bound.
func Join(a, b Val) Val {
	if a.Lo == nil {
		return b
	}
	if b.Lo == nil {
		return a
	}
	r := Val{W: a.W, Signed: a.Signed}
	r.Lo = a.Lo
	if b.Lo.Cmp(r.Lo) < 0 {
		r.Lo = b.Lo
	}
	r.Hi = a.Hi
	if b.Hi.Cmp(r.Hi) > 0 {
		r.Hi = b.Hi
	}
	r.Bits = make([]Bit, a.W)
	for i := 0; i < a.W; i++ {
		x, y := a.bit(i), b.bit(i)
		if x == y {
			r.Bits[i] = x
		} else {
			r.Bits[i] = BTop
		}
	}
	if a.Sym != nil && b.Sym != nil && a.Sym.Key == b.Sym.Key {
		r.Sym = a.Sym
	}
	r.Mask = a.Mask && b.Mask
	return r.norm()
}

// Leq reports a ⊑ b (used for fixpoints).
func Leq(a, b Val) bool {
	if a.Lo.Cmp(b.Lo) < 0 || a.Hi.Cmp(b.Hi) > 0 {
		return false
	}
	for i := 0; i < a.W; i++ {
		if y := b.bit(i); y != BTop && y != a.bit(i) {
			return false
		}
	}
	return true
}

func (v Val) String() string {
	if v.Lo == nil {
		return "⊥"
	}
	if v.IsConst() {
		return fmt.Sprintf("%#x", v.Lo)
	}
	return fmt.Sprintf("[%#x..%#x]", v.Lo, v.Hi)
}

// Log2Hi is the bit length of the upper bound (for reports).
func (v Val) Log2Hi() int { return v.Hi.BitLen() }
