package absint

import (
	"fmt"
	"go/constant"
	"go/token"
	"go/types"
	"math/big"
	"strings"
	"time"

	"golang.org/x/tools/go/ssa"
)

// ---- abstract values of non-integer kinds ------------------------------------------------

// AnyVal is Val, PtrV, SliceV, CloV, TupleV, NilV or OpaqueV.
type AnyVal interface{}

// PtrV points to an object (Idx -1) or to element Idx of a scalar array object.
type PtrV struct {
	Obj int
	Idx int
	VW  int // reinterpreted view through unsafe.Pointer: element width in bits of the viewing array type (0: none).
	// With VW != 0, Idx == -1 denotes the whole viewed array starting at byte-array element VOff, Idx >= 0 the viewed
	// element that starts at underlying element Idx.
	VOff int
}

// SliceV is a slice of a scalar array object.
type SliceV struct {
	Obj      int
	Off, Len int
}

// CloV is a closure.
type CloV struct {
	Fn    *ssa.Function
	Binds []AnyVal
}

// TupleV is a multi-value result.
type TupleV []AnyVal

// NilV is a nil pointer/slice/interface.
type NilV struct{}

// OpaqueV is anything the interpreter does not model (strings, interfaces, ...).
type OpaqueV struct{ What string }

// Object is an abstract memory object.
type Object struct {
	Name string
	Vals []Val  // scalar array / scalar (len 1)
	Kids []int  // aggregate: sub-objects
	Cell AnyVal // pointer-like cell
	Kind string // "arr" | "agg" | "cell"
	W    int    // element width for arr
	Sg   bool
	View int // element width of a reinterpreted view (unsafe casts), 0 if none
}

// State is the abstract heap.
type State struct {
	Objs []*Object
}

func (s *State) new(o *Object) int {
	s.Objs = append(s.Objs, o)
	return len(s.Objs) - 1
}

// Clone deep-copies the heap (values are immutable).
func (s *State) Clone() *State {
	n := &State{Objs: make([]*Object, len(s.Objs))}
	for i, o := range s.Objs {
		c := *o
		c.Vals = append([]Val{}, o.Vals...)
		c.Kids = append([]int{}, o.Kids...)
		n.Objs[i] = &c
	}
	return n
}

func intInfo(t types.Type) (w int, signed bool, ok bool) {
	b, isB := t.Underlying().(*types.Basic)
	if !isB {
		return 0, false, false
	}
	switch b.Kind() {
	case types.Bool, types.UntypedBool:
		return 1, false, true
	case types.Int8:
		return 8, true, true
	case types.Int16:
		return 16, true, true
	case types.Int32, types.UntypedRune:
		return 32, true, true
	case types.Int64, types.Int, types.UntypedInt:
		return 64, true, true
	case types.Uint8:
		return 8, false, true
	case types.Uint16:
		return 16, false, true
	case types.Uint32:
		return 32, false, true
	case types.Uint64, types.Uint, types.Uintptr:
		return 64, false, true
	}
	return 0, false, false
}

// Alloc creates a zero-initialised object tree for type t.
func (s *State) Alloc(name string, t types.Type, zero bool) int {
	switch u := t.Underlying().(type) {
	case *types.Array:
		if w, sg, ok := intInfo(u.Elem()); ok {
			o := &Object{Name: name, Kind: "arr", W: w, Sg: sg, Vals: make([]Val, u.Len())}
			for i := range o.Vals {
				if zero {
					o.Vals[i] = ConstInt(0, w, sg)
				} else {
					o.Vals[i] = Top(w, sg)
				}
			}
			return s.new(o)
		}
		o := &Object{Name: name, Kind: "agg"}
		id := s.new(o)
		if u.Len() > 4096 {
			return id
		}
		for i := int64(0); i < u.Len(); i++ {
			k := s.Alloc(fmt.Sprintf("%s[%d]", name, i), u.Elem(), zero)
			s.Objs[id].Kids = append(s.Objs[id].Kids, k)
		}
		return id
	case *types.Struct:
		o := &Object{Name: name, Kind: "agg"}
		id := s.new(o)
		for i := 0; i < u.NumFields(); i++ {
			k := s.Alloc(name+"."+u.Field(i).Name(), u.Field(i).Type(), zero)
			s.Objs[id].Kids = append(s.Objs[id].Kids, k)
		}
		return id
	}
	if w, sg, ok := intInfo(t); ok {
		v := Top(w, sg)
		if zero {
			v = ConstInt(0, w, sg)
		}
		return s.new(&Object{Name: name, Kind: "arr", W: w, Sg: sg, Vals: []Val{v}})
	}
	return s.new(&Object{Name: name, Kind: "cell", Cell: NilV{}})
}

// ---- obligations --------------------------------------------------------------------------------

// Finding is a hazard at an instruction.
type Finding struct {
	Kind  string
	Msg   string
	Instr ssa.Instruction
	Fn    *ssa.Function
	Stack []string
}

// Hooks customise the interpreter for a rule.
type Hooks struct {
	// Summary lets a rule replace a callee by a summary; return handled=false to interpret the body.
	Summary func(it *Interp, fn *ssa.Function, args []AnyVal, call ssa.Instruction) (res AnyVal, handled bool)
	// Modular lists functions (by ssa name with package) in which wrap-around arithmetic is intended; no overflow/borrow findings there.
	Modular func(fn *ssa.Function) bool
	// OnOr is called for every OR with both operands non-constant.
	OnOr func(in ssa.Instruction, a, b Val, overlap bool)
	// OnStore observes every store of an integer into a scalar array element.
	OnStore func(in ssa.Instruction, obj, idx int, v Val)
	// InitGlobal fills a freshly created package-level variable from its source literal (return false: unknown contents).
	InitGlobal func(it *Interp, g *ssa.Global, obj int) bool
	// MaxSteps bounds the work.
	MaxSteps int
	// MaxTime bounds the wall-clock time of one abstract run (default 4 min, far above the few seconds of the slowest run on the unchanged tree so that machine load cannot trip it).
	MaxTime time.Duration
	// Polys enables exact polynomial tracking (poly.go).
	Polys bool
	// MaxForks bounds the number of undecided branches explored on both sides (0: none).
	MaxForks int
}

// Interp is one run of the abstract interpreter.
type Interp struct {
	started    time.Time
	St         *State
	H          Hooks
	Findings   []Finding
	seen       map[string]bool
	stack      []string
	steps      int
	symInfo    map[string]Val
	wideN      int
	forks      int
	pending    map[string]Finding // tentative borrow findings keyed by the value number of the difference
	pendingAdd map[string]Finding // tentative overflow findings of x + (b<<k), settled by the following - y
	globals    map[*ssa.Global]int
	Err        error
	InstrsSeen map[ssa.Instruction]bool
	ValOf      map[ssa.Value]Val    // join of the abstract values each integer instruction took
	carries    map[string]string    // poly.go: (polynomial, shift) -> carry variable
	highOf     map[string]splitInfo // carry variable -> what it is the high part of
	lowOf      map[string]splitInfo // key of a low part -> what it is the low part of
	bools      map[string]string    // poly.go: boolean variables
	slices     map[string]sliceInfo // poly.go: key of a bit slice -> its normal form
	sliceDepth int
}

// NewInterp creates an interpreter with an empty heap.
func NewInterp(h Hooks) *Interp {
	if h.MaxSteps == 0 {
		h.MaxSteps = 4000000
	}
	if h.MaxTime == 0 {
		h.MaxTime = 4 * time.Minute
	}
	return &Interp{started: time.Now(), St: &State{}, H: h, seen: map[string]bool{}, symInfo: map[string]Val{}, globals: map[*ssa.Global]int{}, InstrsSeen: map[ssa.Instruction]bool{}, ValOf: map[ssa.Value]Val{}}
}

func (it *Interp) flag(kind, msg string, in ssa.Instruction) {
	fn := in.Parent()
	if it.H.Modular != nil && it.H.Modular(fn) && (kind == "overflow" || kind == "borrow") {
		return
	}
	key := fmt.Sprintf("%s|%p", kind, in)
	if it.seen[key] {
		return
	}
	it.seen[key] = true
	it.Findings = append(it.Findings, Finding{Kind: kind, Msg: msg, Instr: in, Fn: fn, Stack: append([]string{}, it.stack...)})
}

func (it *Interp) note(v Val) Val {
	if v.Sym == nil && v.Lo != nil {
		// a fresh value number is always sound: it only ever equals itself
		v.Sym = FreshSym("t", v.W)
	}
	if v.Sym != nil && v.Lo != nil {
		if old, ok := it.symInfo[v.Sym.Key]; ok && old.W == v.W && old.Signed == v.Signed {
			// the same concrete value was seen before: both descriptions hold, so intersect
			if old.Lo.Cmp(v.Lo) > 0 {
				v.Lo = old.Lo
			}
			if old.Hi.Cmp(v.Hi) < 0 {
				v.Hi = old.Hi
			}
			if v.Bits == nil && old.Bits != nil {
				v.Bits = old.Bits
			} else if old.Bits != nil {
				nb := make([]Bit, v.W)
				for i := range nb {
					nb[i] = v.bit(i)
					if nb[i] == BTop {
						nb[i] = old.bit(i)
					}
				}
				v.Bits = nb
			}
			v.Mask = v.Mask || old.Mask
			if v.Lo.Cmp(v.Hi) <= 0 {
				v = v.norm()
			}
		}
		it.symInfo[v.Sym.Key] = v
	}
	return v
}

func (it *Interp) bounds(s *Sym) (*big.Int, *big.Int, bool) {
	if s == nil {
		return nil, nil, false
	}
	if s.isConst() {
		return s.K, s.K, true
	}
	v, ok := it.symInfo[s.Key]
	if !ok {
		return nil, nil, false
	}
	return v.Lo, v.Hi, true
}

// ---- frames ---------------------------------------------------------------------------------------

type frame struct {
	fn   *ssa.Function
	env  map[ssa.Value]AnyVal
	free []AnyVal
}

func (it *Interp) global(g *ssa.Global) int {
	if id, ok := it.globals[g]; ok {
		return id
	}
	id := it.St.Alloc("global:"+g.Name(), g.Type().(*types.Pointer).Elem(), false)
	it.globals[g] = id
	if it.H.InitGlobal != nil {
		it.H.InitGlobal(it, g, id)
	}
	return id
}

func (it *Interp) constVal(c *ssa.Const) AnyVal {
	if c.Value == nil {
		return NilV{}
	}
	if w, sg, ok := intInfo(c.Type()); ok {
		switch c.Value.Kind() {
		case constant.Bool:
			if constant.BoolVal(c.Value) {
				return ConstInt(1, 1, false)
			}
			return ConstInt(0, 1, false)
		case constant.Int:
			b, _ := new(big.Int).SetString(c.Value.ExactString(), 10)
			if !sg && b.Sign() < 0 {
				b.Add(b, pow2(w))
			}
			return Const(b, w, sg)
		}
	}
	return OpaqueV{"const"}
}

func (it *Interp) get(f *frame, v ssa.Value) AnyVal {
	switch x := v.(type) {
	case *ssa.Const:
		return it.constVal(x)
	case *ssa.Global:
		return PtrV{Obj: it.global(x), Idx: -1}
	case *ssa.Function:
		return CloV{Fn: x}
	case *ssa.FreeVar:
		for i, fv := range f.fn.FreeVars {
			if fv == x && i < len(f.free) {
				return f.free[i]
			}
		}
		return OpaqueV{"freevar"}
	case *ssa.Builtin:
		return OpaqueV{"builtin"}
	}
	if r, ok := f.env[v]; ok {
		return r
	}
	return OpaqueV{"undefined " + v.Name()}
}

func (it *Interp) intOf(f *frame, v ssa.Value) (Val, bool) {
	x, ok := it.get(f, v).(Val)
	if !ok {
		if w, sg, isInt := intInfo(v.Type()); isInt {
			return Top(w, sg), true
		}
	}
	return x, ok
}

// Call runs fn on args and returns its results (nil for none).
func (it *Interp) Call(fn *ssa.Function, args []AnyVal, free []AnyVal) AnyVal {
	if it.Err != nil {
		return OpaqueV{"error"}
	}
	if len(fn.Blocks) == 0 {
		return OpaqueV{"no body: " + fn.Name()}
	}
	f := &frame{fn: fn, env: map[ssa.Value]AnyVal{}, free: free}
	for i, p := range fn.Params {
		if i < len(args) {
			f.env[p] = args[i]
		}
	}
	it.stack = append(it.stack, fn.Name())
	defer func() { it.stack = it.stack[:len(it.stack)-1] }()
	return it.runBlocks(f, fn.Blocks[0], nil)
}

// runBlocks executes from block b (entered from prev) until the function returns.
func (it *Interp) runBlocks(f *frame, b, prev *ssa.BasicBlock) AnyVal {
	fn := f.fn
	for {
		var next *ssa.BasicBlock
		for _, in := range b.Instrs {
			it.steps++
			if it.steps > it.H.MaxSteps {
				it.Err = fmt.Errorf("step limit exceeded in %s", fn.Name())
				return OpaqueV{"error"}
			}
			if it.steps&0x3ff == 0 && time.Since(it.started) > it.H.MaxTime {
				it.Err = fmt.Errorf("time budget of one abstract run (%v) exceeded in %s: the exploration does not converge", it.H.MaxTime, fn.Name())
				return OpaqueV{"error"}
			}
			it.InstrsSeen[in] = true
			switch x := in.(type) {
			case *ssa.Phi:
				for i, p := range b.Preds {
					if p == prev {
						f.env[x] = it.get(f, x.Edges[i])
					}
				}
			case *ssa.If:
				c, ok := it.get(f, x.Cond).(Val)
				if !ok || !c.IsConst() {
					if it.forks >= it.H.MaxForks {
						it.Err = &UndecidedBranch{In: x, Fn: fn}
						return OpaqueV{"error"}
					}
					// fork: run both successors to the function's return on copies, then join
					it.forks++
					savedSt := it.St.Clone()
					savedEnv := make(map[ssa.Value]AnyVal, len(f.env))
					for k, v := range f.env {
						savedEnv[k] = v
					}
					r1 := it.runBlocks(f, b.Succs[0], b)
					st1, err1 := it.St, it.Err
					it.St, f.env, it.Err = savedSt, savedEnv, nil
					r2 := it.runBlocks(f, b.Succs[1], b)
					err2 := it.Err
					switch {
					case err1 != nil && err2 != nil:
						it.Err = err1
						return OpaqueV{"error"}
					case err1 != nil:
						it.Err = nil
						return r2
					case err2 != nil:
						it.Err = nil
						it.St = st1
						return r1
					}
					it.St = JoinStates(st1, it.St)
					return JoinAny(r1, r2)
				}
				if c.Lo.Sign() != 0 {
					next = b.Succs[0]
				} else {
					next = b.Succs[1]
				}
			case *ssa.Jump:
				next = b.Succs[0]
			case *ssa.Return:
				switch len(x.Results) {
				case 0:
					return nil
				case 1:
					return it.get(f, x.Results[0])
				}
				var t TupleV
				for _, r := range x.Results {
					t = append(t, it.get(f, r))
				}
				return t
			case *ssa.Panic:
				it.Err = fmt.Errorf("panic reached in %s", fn.Name())
				return OpaqueV{"error"}
			default:
				it.instr(f, in)
				if it.Err != nil {
					return OpaqueV{"error"}
				}
				if v, ok := in.(ssa.Value); ok {
					if iv, ok := f.env[v].(Val); ok {
						if old, have := it.ValOf[v]; have && old.W == iv.W {
							it.ValOf[v] = Join(old, iv)
						} else {
							it.ValOf[v] = iv
						}
					}
				}
			}
		}
		if next == nil {
			it.Err = fmt.Errorf("block without successor in %s", fn.Name())
			return OpaqueV{"error"}
		}
		prev, b = b, next
	}
}

// JoinAny joins two results.
func JoinAny(a, b AnyVal) AnyVal {
	switch x := a.(type) {
	case Val:
		if y, ok := b.(Val); ok && x.W == y.W {
			return Join(x, y)
		}
	case TupleV:
		if y, ok := b.(TupleV); ok && len(x) == len(y) {
			out := make(TupleV, len(x))
			for i := range x {
				out[i] = JoinAny(x[i], y[i])
			}
			return out
		}
	case nil:
		return b
	}
	return a
}

// JoinStates joins two heaps object by object (objects allocated on only one side are kept as they are).
func JoinStates(a, b *State) *State {
	n := len(a.Objs)
	if len(b.Objs) > n {
		n = len(b.Objs)
	}
	out := &State{Objs: make([]*Object, n)}
	for i := 0; i < n; i++ {
		switch {
		case i >= len(a.Objs):
			out.Objs[i] = b.Objs[i]
		case i >= len(b.Objs):
			out.Objs[i] = a.Objs[i]
		default:
			x, y := a.Objs[i], b.Objs[i]
			if x.Kind == "arr" && y.Kind == "arr" && len(x.Vals) == len(y.Vals) && x.W == y.W {
				c := *x
				c.Vals = make([]Val, len(x.Vals))
				for k := range x.Vals {
					c.Vals[k] = Join(x.Vals[k], y.Vals[k])
				}
				out.Objs[i] = &c
			} else {
				out.Objs[i] = x
			}
		}
	}
	return out
}

// isShlOfBorrow: one operand is ((x - y) >> (W-1)) << k, i.e. the addition may be the first half of x + (b<<k) - y.
func isShlOfBorrow(a, b Val) bool {
	for _, o := range []Val{a, b} {
		if o.Sym != nil && o.Sym.Op == "shl" && o.Sym.Args[0].Op == "shr" && int(o.Sym.Args[0].K.Int64()) == o.W-1 && o.Sym.Args[0].Args[0].Op == "sub" {
			return true
		}
	}
	return false
}

// Finish turns the remaining tentative findings into findings.
func (it *Interp) Finish() {
	for _, f := range it.pending {
		it.flag(f.Kind, f.Msg, f.Instr)
	}
	it.pending = nil
	for _, f := range it.pendingAdd {
		it.flag(f.Kind, f.Msg, f.Instr)
	}
	it.pendingAdd = nil
}

// UndecidedBranch is returned when control depends on an abstract value.
type UndecidedBranch struct {
	In *ssa.If
	Fn *ssa.Function
}

func (e *UndecidedBranch) Error() string {
	return "branch on an abstract value in " + e.Fn.Name()
}

func boolVal(b bool) Val {
	if b {
		return ConstInt(1, 1, false)
	}
	return ConstInt(0, 1, false)
}

func cmpName(op token.Token) string {
	switch op {
	case token.EQL:
		return "=="
	case token.NEQ:
		return "!="
	case token.LSS:
		return "<"
	case token.LEQ:
		return "<="
	case token.GTR:
		return ">"
	case token.GEQ:
		return ">="
	}
	return ""
}

func (it *Interp) instr(f *frame, in ssa.Instruction) {
	switch x := in.(type) {
	case *ssa.DebugRef:
	case *ssa.Alloc:
		id := it.St.Alloc(x.Comment, x.Type().(*types.Pointer).Elem(), true)
		f.env[x] = PtrV{Obj: id, Idx: -1}
	case *ssa.MakeSlice:
		n, ok := it.intOf(f, x.Len)
		el := x.Type().Underlying().(*types.Slice).Elem()
		if w, sg, isInt := intInfo(el); ok && n.IsConst() && isInt {
			o := &Object{Name: "make", Kind: "arr", W: w, Sg: sg, Vals: make([]Val, n.Int64())}
			for i := range o.Vals {
				o.Vals[i] = ConstInt(0, w, sg)
			}
			f.env[x] = SliceV{Obj: it.St.new(o), Off: 0, Len: len(o.Vals)}
		} else {
			f.env[x] = OpaqueV{"make"}
		}
	case *ssa.FieldAddr:
		p, ok := it.get(f, x.X).(PtrV)
		if !ok || p.Idx != -1 || x.Field >= len(it.St.Objs[p.Obj].Kids) {
			f.env[x] = OpaqueV{"fieldaddr"}
			return
		}
		f.env[x] = PtrV{Obj: it.St.Objs[p.Obj].Kids[x.Field], Idx: -1}
	case *ssa.IndexAddr:
		f.env[x] = it.indexAddr(f, x)
	case *ssa.UnOp:
		it.unop(f, x)
	case *ssa.BinOp:
		it.binop(f, x)
	case *ssa.Store:
		it.store(it.get(f, x.Addr), it.get(f, x.Val), x)
	case *ssa.Slice:
		f.env[x] = it.slice(f, x)
	case *ssa.Convert:
		v := it.get(f, x.X)
		if iv, ok := v.(Val); ok {
			if w, sg, isInt := intInfo(x.Type()); isInt {
				r, lossy := Convert(iv, w, sg)
				if it.H.Polys {
					r.Poly = nil
					r.PolyMod = false
					if pv := it.polyOf(iv); pv != nil {
						switch {
						case !iv.PolyMod && iv.Lo.Cmp(minOf(w, sg)) >= 0 && iv.Hi.Cmp(maxOf(w, sg)) <= 0:
							r.Poly = pv // value preserved
						case !sg && !iv.Signed && w <= iv.W:
							if iv.PolyMod {
								r.Poly = it.polyLowMod(pv, w)
							} else {
								r.Poly = it.polyLow(pv, iv.Hi, w)
							}
						}
					}
				}
				// (a conversion to a single byte is serialisation: the other bytes take the remaining bits, which the
				// bit-origin / output rules decide)
				if lossy && w < iv.W && w > 8 && !onlyMasked(x) {
					// a narrowing that drops possibly-set bits is fine only when the dropped bits are consumed elsewhere;
					// the rule decides (recorded as a finding of kind "narrow")
					it.flag("narrow", fmt.Sprintf("conversion to %d bits may drop set bits: value up to %#x (2^%d)", w, iv.Hi, iv.Hi.BitLen()), x)
				}
				f.env[x] = it.note(r)
				return
			}
		}
		if w, sg, isInt := intInfo(x.Type()); isInt {
			// pointer -> uintptr: the numeric address is unknown
			if _, isPtr := v.(PtrV); isPtr {
				f.env[x] = Top(w, sg)
				return
			}
		}
		// unsafe.Pointer -> *[n]T over an array of narrower elements: a reinterpreting view
		if pt, ok := x.Type().Underlying().(*types.Pointer); ok {
			if at, ok := pt.Elem().Underlying().(*types.Array); ok {
				if ew, _, isInt := intInfo(at.Elem()); isInt {
					if pv, ok := v.(PtrV); ok && pv.VW == 0 {
						if o := it.St.Objs[pv.Obj]; o.Kind == "arr" && o.W != ew && o.W == 8 {
							off := pv.Idx
							if off < 0 {
								off = 0
							}
							f.env[x] = PtrV{Obj: pv.Obj, Idx: -1, VW: ew, VOff: off}
							return
						}
					}
				}
			}
		}
		f.env[x] = v // pointer <-> unsafe.Pointer etc. keep the value
	case *ssa.ChangeType, *ssa.ChangeInterface, *ssa.MakeInterface:
		ops := in.Operands(nil)
		f.env[in.(ssa.Value)] = it.get(f, *ops[0])
	case *ssa.SliceToArrayPointer:
		if s, ok := it.get(f, x.X).(SliceV); ok && s.Off == 0 {
			f.env[x] = PtrV{Obj: s.Obj, Idx: -1}
		} else {
			f.env[x] = OpaqueV{"slice2array"}
		}
	case *ssa.Extract:
		if t, ok := it.get(f, x.Tuple).(TupleV); ok && x.Index < len(t) {
			f.env[x] = t[x.Index]
		} else if w, sg, isInt := intInfo(x.Type()); isInt {
			f.env[x] = Top(w, sg)
		} else {
			f.env[x] = OpaqueV{"extract"}
		}
	case *ssa.MakeClosure:
		c := CloV{Fn: x.Fn.(*ssa.Function)}
		for _, b := range x.Bindings {
			c.Binds = append(c.Binds, it.get(f, b))
		}
		f.env[x] = c
	case *ssa.Call:
		f.env[x] = it.call(f, x)
	case *ssa.Index:
		// element of an array value (`for i, v := range arr`, `arr[i]` on a copy): the value is a snapshot object
		if pv, ok := it.get(f, x.X).(PtrV); ok && pv.Idx == -1 {
			if o := it.St.Objs[pv.Obj]; o.Kind == "arr" {
				if idx, ok := it.intOf(f, x.Index); ok && idx.IsConst() {
					i := int(idx.Int64())
					if i < 0 || i >= len(o.Vals) {
						it.Err = fmt.Errorf("index %d out of range (len %d) in %s", i, len(o.Vals), f.fn.Name())
						f.env[x] = OpaqueV{"oob"}
						return
					}
					f.env[x] = o.Vals[i]
					return
				}
			}
		}
		if w, sg, isInt := intInfo(x.Type()); isInt {
			f.env[x] = Top(w, sg)
		} else {
			f.env[x] = OpaqueV{"index"}
		}
	default:
		if v, ok := in.(ssa.Value); ok {
			if w, sg, isInt := intInfo(v.Type()); isInt {
				f.env[v] = Top(w, sg)
			} else {
				f.env[v] = OpaqueV{fmt.Sprintf("%T", in)}
			}
		}
	}
}

// onlyMasked reports whether every use of v is an AND with a constant (a bit-field extraction: the dropped bits are
// discarded on purpose and the exactness of such packings is checked bit by bit by the bit-origin rule).
func onlyMasked(v ssa.Value) bool {
	refs := v.Referrers()
	if refs == nil || len(*refs) == 0 {
		return false
	}
	n := 0
	for _, u := range *refs {
		switch x := u.(type) {
		case *ssa.DebugRef:
		case *ssa.BinOp:
			_, c1 := x.X.(*ssa.Const)
			_, c2 := x.Y.(*ssa.Const)
			if x.Op != token.AND || !(c1 || c2) {
				return false
			}
			n++
		default:
			return false
		}
	}
	return n > 0
}

// IndexConcrete / IndexAbstract record, per process, which index sites the abstract runs reached with a concrete
// (singleton) index only, resp. at least once with an abstract one. A site reached only concretely on runs that cover
// every loop iteration of its function is in range on all of them (an out-of-range concrete index is an error of the run).
var (
	IndexConcrete = map[*ssa.IndexAddr]bool{}
	IndexAbstract = map[*ssa.IndexAddr]bool{}
)

func (it *Interp) indexAddr(f *frame, x *ssa.IndexAddr) AnyVal {
	idx, ok := it.intOf(f, x.Index)
	if !ok || !idx.IsConst() {
		IndexAbstract[x] = true
		return OpaqueV{"index by abstract value"}
	}
	IndexConcrete[x] = true
	i := int(idx.Int64())
	switch b := it.get(f, x.X).(type) {
	case PtrV:
		if b.Idx != -1 {
			return OpaqueV{"index of element pointer"}
		}
		o := it.St.Objs[b.Obj]
		if b.VW != 0 {
			per := b.VW / o.W
			at := b.VOff + i*per
			if i < 0 || at+per > len(o.Vals) {
				it.Err = fmt.Errorf("index %d out of range of a %d-bit view over %d bytes in %s", i, b.VW, len(o.Vals), f.fn.Name())
				return OpaqueV{"oob"}
			}
			return PtrV{Obj: b.Obj, Idx: at, VW: b.VW}
		}
		if o.Kind == "arr" {
			n := len(o.Vals)
			if o.View != 0 {
				n = len(o.Vals) * o.W / o.View
			}
			if i < 0 || i >= n {
				it.Err = fmt.Errorf("index %d out of range (len %d) in %s", i, n, f.fn.Name())
				return OpaqueV{"oob"}
			}
			return PtrV{Obj: b.Obj, Idx: i}
		}
		if i < 0 || i >= len(o.Kids) {
			return OpaqueV{"index of aggregate out of modelled range"}
		}
		return PtrV{Obj: o.Kids[i], Idx: -1}
	case SliceV:
		if i < 0 || i >= b.Len {
			it.Err = fmt.Errorf("index %d out of range (slice len %d) in %s", i, b.Len, f.fn.Name())
			return OpaqueV{"oob"}
		}
		if o := it.St.Objs[b.Obj]; o.Kind == "agg" {
			// a slice of an array of aggregates (table[first:first+8]): the element is the sub-object
			if b.Off+i >= len(o.Kids) {
				return OpaqueV{"index of aggregate out of modelled range"}
			}
			return PtrV{Obj: o.Kids[b.Off+i], Idx: -1}
		}
		return PtrV{Obj: b.Obj, Idx: b.Off + i}
	}
	return OpaqueV{"index of unmodelled base"}
}

func (it *Interp) slice(f *frame, x *ssa.Slice) AnyVal {
	bound := func(v ssa.Value, def int) (int, bool) {
		if v == nil {
			return def, true
		}
		iv, ok := it.intOf(f, v)
		if !ok || !iv.IsConst() {
			return 0, false
		}
		return int(iv.Int64()), true
	}
	switch b := it.get(f, x.X).(type) {
	case PtrV:
		o := it.St.Objs[b.Obj]
		if b.Idx == -1 && o.Kind == "agg" && len(o.Kids) > 0 {
			lo, ok1 := bound(x.Low, 0)
			hi, ok2 := bound(x.High, len(o.Kids))
			if !ok1 || !ok2 || lo < 0 || hi > len(o.Kids) || lo > hi {
				return OpaqueV{"slice bounds"}
			}
			return SliceV{Obj: b.Obj, Off: lo, Len: hi - lo}
		}
		if b.Idx != -1 || o.Kind != "arr" {
			return OpaqueV{"slice of unmodelled base"}
		}
		lo, ok1 := bound(x.Low, 0)
		hi, ok2 := bound(x.High, len(o.Vals))
		if !ok1 || !ok2 || lo < 0 || hi > len(o.Vals) || lo > hi {
			return OpaqueV{"slice bounds"}
		}
		return SliceV{Obj: b.Obj, Off: lo, Len: hi - lo}
	case SliceV:
		lo, ok1 := bound(x.Low, 0)
		hi, ok2 := bound(x.High, b.Len)
		if !ok1 || !ok2 || lo < 0 || lo > hi {
			return OpaqueV{"slice bounds"}
		}
		return SliceV{Obj: b.Obj, Off: b.Off + lo, Len: hi - lo}
	}
	return OpaqueV{"slice"}
}

func (it *Interp) loadElem(p PtrV, t types.Type) AnyVal {
	o := it.St.Objs[p.Obj]
	if p.VW != 0 && p.Idx >= 0 && o.Kind == "arr" && o.W == 8 {
		return it.leLoad(SliceV{Obj: p.Obj, Off: p.Idx, Len: p.VW / 8}, p.VW/8, p.VW)
	}
	switch {
	case o.Kind == "arr" && p.Idx >= 0 && p.Idx < len(o.Vals) && o.View == 0:
		return o.Vals[p.Idx]
	case o.Kind == "arr" && p.Idx == -1 && len(o.Vals) == 1:
		if _, _, isInt := intInfo(t); isInt {
			return o.Vals[0]
		}
		return p
	case o.Kind == "arr" && p.Idx == -1 && p.VW == 0:
		// load of a whole array value: a snapshot (Go copies array values)
		if _, isArr := t.Underlying().(*types.Array); isArr {
			cp := &Object{Name: o.Name + "(copy)", Kind: "arr", W: o.W, Sg: o.Sg, Vals: append([]Val{}, o.Vals...)}
			return PtrV{Obj: it.St.new(cp), Idx: -1}
		}
	case o.Kind == "cell":
		return o.Cell
	}
	if w, sg, isInt := intInfo(t); isInt {
		return Top(w, sg)
	}
	return p
}

func (it *Interp) unop(f *frame, x *ssa.UnOp) {
	switch x.Op {
	case token.MUL:
		switch p := it.get(f, x.X).(type) {
		case PtrV:
			lv := it.loadElem(p, x.Type())
			if iv, ok := lv.(Val); ok {
				lv = it.note(iv)
			}
			f.env[x] = lv
		default:
			if w, sg, isInt := intInfo(x.Type()); isInt {
				f.env[x] = Top(w, sg)
			} else {
				f.env[x] = OpaqueV{"load"}
			}
		}
	case token.NOT:
		v, ok := it.get(f, x.X).(Val)
		if ok && v.IsConst() {
			f.env[x] = boolVal(v.Lo.Sign() == 0)
		} else {
			f.env[x] = Top(1, false)
		}
	case token.SUB:
		v, _ := it.intOf(f, x.X)
		f.env[x] = it.note(Neg(v))
	case token.XOR:
		v, _ := it.intOf(f, x.X)
		f.env[x] = it.note(Not(v))
	default:
		f.env[x] = OpaqueV{"unop"}
	}
}

// selectByMask resolves r ^ (m & (r ^ t)) with m in {0, all-ones}: the result is r or t.
func (it *Interp) selectByMask(a, b Val) (Val, bool) {
	try := func(r, mx Val) (Val, bool) {
		if mx.Sym == nil || mx.Sym.Op != "and" || r.Sym == nil {
			return Val{}, false
		}
		for k := 0; k < 2; k++ {
			m, xr := mx.Sym.Args[k], mx.Sym.Args[1-k]
			mi, ok := it.symInfo[m.Key]
			if !ok || !mi.Mask {
				continue
			}
			t := symXor(xr, r.Sym, r.W)
			ti, ok := it.symInfo[t.Key]
			if !ok {
				continue
			}
			out := Join(r, ti)
			out.Sym = mkSym("select", r.W, nil, m, r.Sym, t)
			out.Poly, out.PolyMod = nil, false
			if it.H.Polys {
				// mask = B - 1 with B boolean: B = 1 keeps r, B = 0 takes t, i.e. r + (1-B)(t-r)
				pr, ptt := it.polyOf(r), it.polyOf(ti)
				if pm := mi.Poly; pm != nil && pr != nil && ptt != nil && !r.PolyMod && !ti.PolyMod {
					sel := PolyScale(pm, big.NewInt(-1)) // 1 - B
					okForm := len(pm.T) == 2 && pm.T[""] != nil && pm.T[""].Cmp(big.NewInt(-1)) == 0
					for mono, c := range pm.T {
						if mono != "" && (!strings.HasPrefix(mono, "B") || strings.Contains(mono, "*") || c.Cmp(big1) != 0) {
							okForm = false
						}
					}
					if okForm {
						out.Poly = PolyAdd(pr, PolyMul(sel, PolyAdd(ptt, pr, -1)), 1)
					}
				}
			}
			return out, true
		}
		return Val{}, false
	}
	if v, ok := try(a, b); ok {
		return v, true
	}
	return try(b, a)
}

func (it *Interp) binop(f *frame, x *ssa.BinOp) {
	if op := cmpName(x.Op); op != "" {
		a, ok1 := it.get(f, x.X).(Val)
		b, ok2 := it.get(f, x.Y).(Val)
		if ok1 && ok2 {
			if r, known := Cmp(op, a, b); known {
				f.env[x] = boolVal(r)
				return
			}
			f.env[x] = Top(1, false)
			return
		}
		// whole-array comparison (`*a == (T{})`, `*a == *b`): element-wise
		if _, isArr := x.X.Type().Underlying().(*types.Array); isArr && (op == "==" || op == "!=") {
			elems := func(v AnyVal, n int, w int, sg bool) []Val {
				switch t := v.(type) {
				case PtrV:
					if o := it.St.Objs[t.Obj]; o.Kind == "arr" && t.Idx == -1 {
						return o.Vals
					}
				case NilV:
					out := make([]Val, n)
					for i := range out {
						out[i] = ConstInt(0, w, sg)
					}
					return out
				}
				return nil
			}
			var n, w int
			var sg bool
			for _, side := range []ssa.Value{x.X, x.Y} {
				if pv, ok := it.get(f, side).(PtrV); ok {
					if o := it.St.Objs[pv.Obj]; o.Kind == "arr" {
						n, w, sg = len(o.Vals), o.W, o.Sg
					}
				}
			}
			ea, eb := elems(it.get(f, x.X), n, w, sg), elems(it.get(f, x.Y), n, w, sg)
			if n > 0 && len(ea) == n && len(eb) == n {
				allEq, anyNe := true, false
				for i := 0; i < n; i++ {
					r, known := Cmp("==", ea[i], eb[i])
					if !known || !r {
						allEq = false
					}
					if known && !r {
						anyNe = true
					}
				}
				switch {
				case allEq:
					f.env[x] = boolVal(op == "==")
					return
				case anyNe:
					f.env[x] = boolVal(op != "==")
					return
				}
			}
		}
		// pointer / nil comparisons are not modelled
		f.env[x] = Top(1, false)
		return
	}
	a, _ := it.intOf(f, x.X)
	b, _ := it.intOf(f, x.Y)
	var r Val
	switch x.Op {
	case token.ADD:
		var fl []Flag
		r, fl = Add(a, b, it.bounds)
		for _, g := range fl {
			if g.Kind == "overflow" && r.Sym != nil && isShlOfBorrow(a, b) {
				if it.pendingAdd == nil {
					it.pendingAdd = map[string]Finding{}
				}
				it.pendingAdd[r.Sym.Key] = Finding{Kind: g.Kind, Msg: g.Msg, Instr: x, Fn: x.Parent(), Stack: append([]string{}, it.stack...)}
				continue
			}
			it.flag(g.Kind, g.Msg, x)
		}
		if len(fl) == 0 {
			// a recognised borrow compensation settles the tentative finding of its difference
			for _, o := range []Val{a, b} {
				if o.Sym != nil && o.Sym.Op == "sub" {
					if _, _, _, ok := isBorrowCompensation(a, b); ok {
						delete(it.pending, o.Sym.Key)
						it.seen["ok|"+o.Sym.Key] = true
					}
				}
			}
		}
	case token.SUB:
		var fl []Flag
		r, fl = SubB(a, b, it.bounds)
		if len(fl) == 0 {
			if _, _, _, ok := isBorrowCompensation2(a, b); ok && a.Sym != nil {
				// the overflow of x + (b<<k) is part of the idiom: settle the tentative finding of that addition
				delete(it.pendingAdd, a.Sym.Key)
			}
		}
		for _, g := range fl {
			if g.Kind == "borrow" && r.Sym != nil && !a.Signed {
				// tentative: x - y + (lt(x,y) << k) compensates the borrow; decided when the difference is consumed
				if it.pending == nil {
					it.pending = map[string]Finding{}
				}
				if _, done := it.seen["ok|"+r.Sym.Key]; !done {
					it.pending[r.Sym.Key] = Finding{Kind: g.Kind, Msg: g.Msg, Instr: x, Fn: x.Parent(), Stack: append([]string{}, it.stack...)}
				}
				continue
			}
			it.flag(g.Kind, g.Msg, x)
		}
	case token.MUL:
		var fl []Flag
		r, fl = Mul(a, b)
		for _, g := range fl {
			it.flag(g.Kind, g.Msg, x)
		}
	case token.AND:
		r = And(a, b)
	case token.OR:
		var ov bool
		r, ov = Or(a, b)
		if it.H.OnOr != nil && !a.IsConst() && !b.IsConst() {
			it.H.OnOr(x, a, b, ov)
		}
	case token.XOR:
		if s, ok := it.selectByMask(a, b); ok {
			r = s
		} else {
			r = Xor(a, b)
			r.Poly, r.PolyMod = nil, false
		}
	case token.AND_NOT:
		r = And(a, Not(b))
	case token.SHL, token.SHR:
		if !b.IsConst() {
			r = Top(a.W, a.Signed)
			break
		}
		k := int(b.Int64())
		if k >= a.W {
			if x.Op == token.SHR && a.Signed {
				k = a.W - 1
			} else {
				r = ConstInt(0, a.W, a.Signed)
				break
			}
		}
		if x.Op == token.SHL {
			r, _ = Shl(a, k)
		} else {
			r = Shr(a, k)
		}
	case token.QUO, token.REM:
		if !a.Signed && b.IsConst() && b.Lo.Sign() > 0 && b.Lo.BitLen()-1 == int(b.Lo.TrailingZeroBits()) && !a.IsConst() {
			// unsigned division by a power of two is a shift, the remainder a mask
			kk := b.Lo.BitLen() - 1
			if x.Op == token.QUO {
				r = Shr(a, kk)
			} else {
				r = And(a, Const(new(big.Int).Sub(pow2(kk), big1), a.W, false))
			}
			break
		}
		if a.IsConst() && b.IsConst() && b.Lo.Sign() != 0 {
			q, m := new(big.Int).QuoRem(a.Lo, b.Lo, new(big.Int))
			if x.Op == token.QUO {
				r = Const(q, a.W, a.Signed)
			} else {
				r = Const(m, a.W, a.Signed)
			}
		} else if x.Op == token.QUO && b.IsConst() && b.Lo.Sign() > 0 && a.Lo.Sign() >= 0 {
			r = Range(new(big.Int).Quo(a.Lo, b.Lo), new(big.Int).Quo(a.Hi, b.Lo), a.W, a.Signed)
		} else if x.Op == token.REM && b.IsConst() && b.Lo.Sign() > 0 && a.Lo.Sign() >= 0 {
			r = Range(new(big.Int), new(big.Int).Sub(b.Lo, big1), a.W, a.Signed)
		} else {
			r = Top(a.W, a.Signed)
		}
	default:
		r = Top(a.W, a.Signed)
	}
	if it.H.Polys && r.Lo != nil {
		var pop string
		k := 0
		switch x.Op {
		case token.ADD:
			pop = "add"
		case token.SUB:
			pop = "sub"
		case token.MUL:
			pop = "mul"
		case token.AND:
			pop = "and"
		case token.OR:
			pop = "or"
		case token.SHL, token.SHR:
			if b.IsConst() && b.Lo.IsInt64() && int(b.Int64()) < a.W {
				k = int(b.Int64())
				pop = "shl"
				if x.Op == token.SHR {
					pop = "shr"
				}
			}
		case token.QUO, token.REM:
			// division by a power of two is a shift / mask
			if b.IsConst() && b.Lo.Sign() > 0 && b.Lo.BitLen()-1 == int(b.Lo.TrailingZeroBits()) {
				k = b.Lo.BitLen() - 1
				pop = "shr"
				if x.Op == token.REM {
					pop = "low"
				}
			}
		}
		if x.Op != token.XOR { // a recognised select-by-mask already carries its polynomial
			r.Poly, r.PolyMod = nil, false
		}
		if pop != "" {
			r.Poly, r.PolyMod = it.polyBin(pop, a, b, r, k)
		}
		// the borrow idiom: (x - y) >> (W-1) is the truth value of x < y when both are below 2^(W-1) ...
		if x.Op == token.SHR && k == a.W-1 && a.PolyMod && a.Poly != nil && a.Sym != nil && a.Sym.Op == "sub" && !a.Signed {
			_, xh, ok1 := it.bounds(a.Sym.Args[0])
			_, yh, ok2 := it.bounds(a.Sym.Args[1])
			if ok1 && ok2 && xh.BitLen() < a.W && yh.BitLen() < a.W {
				r.Poly, r.PolyMod = it.boolVar("lt:"+a.Poly.Key()), false
			}
		}
		// ... and x - y + (lt(x,y) << k) is then the exact, non-negative difference modulo 2^k
		if r.PolyMod && r.Poly != nil && r.Hi != nil {
			if x.Op == token.ADD {
				if kk, _, _, ok := isBorrowCompensation(a, b); ok && r.Hi.Cmp(new(big.Int).Sub(pow2(kk), big1)) == 0 && r.Lo.Sign() == 0 {
					r.PolyMod = false
				}
			}
			if x.Op == token.SUB {
				if kk, _, _, ok := isBorrowCompensation2(a, b); ok && r.Hi.Cmp(new(big.Int).Sub(pow2(kk), big1)) == 0 && r.Lo.Sign() == 0 {
					r.PolyMod = false
				}
			}
		}
	}
	f.env[x] = it.note(r)
}

func (it *Interp) zeroObj(id int) {
	o := it.St.Objs[id]
	for i := range o.Vals {
		o.Vals[i] = ConstInt(0, o.W, o.Sg)
	}
	for _, k := range o.Kids {
		it.zeroObj(k)
	}
}

func (it *Interp) store(addr, v AnyVal, in ssa.Instruction) {
	p, ok := addr.(PtrV)
	if !ok {
		return
	}
	o := it.St.Objs[p.Obj]
	if _, isNil := v.(NilV); isNil && p.Idx == -1 && (o.Kind == "agg" || (o.Kind == "arr" && len(o.Vals) > 1)) {
		// `*p = T{}`: the zero value of an aggregate
		it.zeroObj(p.Obj)
		return
	}
	if p.VW != 0 && p.Idx >= 0 && o.Kind == "arr" && o.W == 8 {
		if iv, ok := v.(Val); ok {
			it.leStore(SliceV{Obj: p.Obj, Off: p.Idx, Len: p.VW / 8}, p.VW/8, iv)
		}
		return
	}
	switch {
	case o.Kind == "arr" && p.Idx >= 0 && o.View == 0:
		if iv, ok := v.(Val); ok && p.Idx < len(o.Vals) {
			o.Vals[p.Idx] = iv
			if it.H.OnStore != nil {
				it.H.OnStore(in, p.Obj, p.Idx, iv)
			}
		}
	case o.Kind == "arr" && p.Idx == -1:
		if iv, ok := v.(Val); ok && len(o.Vals) == 1 {
			o.Vals[0] = iv
		} else if src, ok := v.(PtrV); ok && src.Idx == -1 {
			it.copyObj(p.Obj, src.Obj)
		}
	case o.Kind == "agg":
		if src, ok := v.(PtrV); ok && src.Idx == -1 {
			it.copyObj(p.Obj, src.Obj)
		}
	case o.Kind == "cell":
		o.Cell = v
	}
}

func (it *Interp) copyObj(dst, src int) {
	d, s := it.St.Objs[dst], it.St.Objs[src]
	if d.Kind == "arr" && s.Kind == "arr" && len(d.Vals) == len(s.Vals) {
		copy(d.Vals, s.Vals)
		return
	}
	if d.Kind == "agg" && s.Kind == "agg" && len(d.Kids) == len(s.Kids) {
		for i := range d.Kids {
			it.copyObj(d.Kids[i], s.Kids[i])
		}
	}
}

// ReadArr returns the element values of an array object / slice.
func (it *Interp) ReadArr(v AnyVal) []Val {
	switch x := v.(type) {
	case PtrV:
		o := it.St.Objs[x.Obj]
		if o.Kind == "arr" && x.Idx == -1 {
			return o.Vals
		}
	case SliceV:
		return it.St.Objs[x.Obj].Vals[x.Off : x.Off+x.Len]
	}
	return nil
}

func isPkgFunc(fn *ssa.Function, suffix string) bool {
	return fn != nil && strings.HasSuffix(fn.String(), suffix)
}
