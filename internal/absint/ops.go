package absint

import (
	"fmt"
	"math/big"
)

// Flag is a potential arithmetic hazard detected by a transfer function.
type Flag struct {
	Kind string // overflow | borrow | narrow | or-overlap | carry-out
	Msg  string
}

func withBitsFromDisjoint(a, b Val) ([]Bit, bool) {
	bits := make([]Bit, a.W)
	for i := 0; i < a.W; i++ {
		x, y := a.bit(i), b.bit(i)
		switch {
		case x == BZero:
			bits[i] = y
		case y == BZero:
			bits[i] = x
		default:
			return nil, false
		}
	}
	return bits, true
}

// isBorrowCompensation recognises  (x - y) + (((x - y) >> (W-1)) << k), the borrow idiom of the scalar code:
// mathematically x - y + 2^k*[x<y], which lies in [0, 2^k) whenever 0 <= x < 2^k and 0 <= y <= 2^k.
func isBorrowCompensation(a, b Val) (k int, x, y *Sym, ok bool) {
	try := func(d, c Val) (int, *Sym, *Sym, bool) {
		if d.Sym == nil || c.Sym == nil || d.Sym.Op != "sub" || c.Sym.Op != "shl" {
			return 0, nil, nil, false
		}
		sh := c.Sym.Args[0]
		if sh.Op != "shr" || int(sh.K.Int64()) != d.W-1 {
			return 0, nil, nil, false
		}
		if sh.Args[0].Key != d.Sym.Key {
			return 0, nil, nil, false
		}
		return int(c.Sym.K.Int64()), d.Sym.Args[0], d.Sym.Args[1], true
	}
	if k, x, y, ok := try(a, b); ok {
		return k, x, y, true
	}
	return try(b, a)
}

// Add is a + b in the type of a.
func Add(a, b Val, bounds func(*Sym) (lo, hi *big.Int, ok bool)) (Val, []Flag) {
	w, sg := a.W, a.Signed
	var flags []Flag
	if !sg {
		if k, x, y, ok := isBorrowCompensation(a, b); ok && bounds != nil {
			_, xh, ok1 := bounds(x)
			_, yh, ok2 := bounds(y)
			if ok1 && ok2 && xh.Cmp(pow2(k)) < 0 && yh.Cmp(pow2(k)) <= 0 {
				r := Range(big0, new(big.Int).Sub(pow2(k), big1), w, false)
				r.Sym = symBin("add", a.Sym, b.Sym, w)
				return r, nil
			}
			flags = append(flags, Flag{"borrow", fmt.Sprintf("borrow compensation by 2^%d needs x < 2^%d and y <= 2^%d; have x <= %#x, y <= %#x", k, k, k, xh, yh)})
		}
	}
	lo := new(big.Int).Add(a.Lo, b.Lo)
	hi := new(big.Int).Add(a.Hi, b.Hi)
	r := Val{W: w, Signed: sg}
	r.Sym = symBin("add", a.Sym, b.Sym, w)
	if a.IsConst() && b.IsConst() && (hi.Cmp(maxOf(w, sg)) > 0 || lo.Cmp(minOf(w, sg)) < 0) {
		return wrapConst(lo, w, sg), append(flags, Flag{"overflow", fmt.Sprintf("%d-bit addition of constants wraps", w)})
	}
	if hi.Cmp(maxOf(w, sg)) > 0 || lo.Cmp(minOf(w, sg)) < 0 {
		flags = append(flags, Flag{"overflow", fmt.Sprintf("%d-bit addition may wrap: operands up to %#x and %#x", w, a.Hi, b.Hi)})
		t := Top(w, sg)
		t.Sym = r.Sym
		return t, flags
	}
	r.Lo, r.Hi = lo, hi
	if !sg {
		if bits, ok := withBitsFromDisjoint(a, b); ok {
			r.Bits = bits
		}
	}
	return r.norm(), flags
}

// isBorrowCompensation2 recognises the other spelling  (x + (((x - y) >> (W-1)) << k)) - y.
func isBorrowCompensation2(a, b Val) (k int, x, y *Sym, ok bool) {
	if a.Sym == nil || b.Sym == nil || a.Sym.Op != "add" || len(a.Sym.Args) != 2 {
		return 0, nil, nil, false
	}
	for i := 0; i < 2; i++ {
		xs, c := a.Sym.Args[i], a.Sym.Args[1-i]
		if c.Op != "shl" || c.Args[0].Op != "shr" || int(c.Args[0].K.Int64()) != a.W-1 {
			continue
		}
		d := c.Args[0].Args[0]
		if d.Op == "sub" && d.Args[0].Key == xs.Key && d.Args[1].Key == b.Sym.Key {
			return int(c.K.Int64()), xs, b.Sym, true
		}
	}
	return 0, nil, nil, false
}

// Sub is a - b.
func Sub(a, b Val) (Val, []Flag) { return SubB(a, b, nil) }

// SubB is Sub with access to recorded bounds (for the borrow idiom written as x + (b<<k) - y).
func SubB(a, b Val, bounds func(*Sym) (lo, hi *big.Int, ok bool)) (Val, []Flag) {
	w, sg := a.W, a.Signed
	if !sg && bounds != nil {
		if k, x, y, ok := isBorrowCompensation2(a, b); ok {
			_, xh, ok1 := bounds(x)
			_, yh, ok2 := bounds(y)
			if ok1 && ok2 && xh.Cmp(pow2(k)) < 0 && yh.Cmp(pow2(k)) <= 0 {
				r := Range(big0, new(big.Int).Sub(pow2(k), big1), w, false)
				r.Sym = symBin("sub", a.Sym, b.Sym, w)
				return r, nil
			}
		}
	}
	r := Val{W: w, Signed: sg}
	r.Sym = symBin("sub", a.Sym, b.Sym, w)
	lo := new(big.Int).Sub(a.Lo, b.Hi)
	hi := new(big.Int).Sub(a.Hi, b.Lo)
	if a.IsConst() && b.IsConst() && (lo.Cmp(minOf(w, sg)) < 0 || hi.Cmp(maxOf(w, sg)) > 0) {
		c := wrapConst(lo, w, sg)
		return c, []Flag{{"borrow", fmt.Sprintf("%d-bit subtraction of constants wraps", w)}}
	}
	if lo.Cmp(minOf(w, sg)) < 0 || hi.Cmp(maxOf(w, sg)) > 0 {
		t := Top(w, sg)
		t.Sym = r.Sym
		// b-1 with b in {0,1} is the all-ones / zero mask idiom
		if !sg && b.IsConst() && b.Lo.Cmp(big1) == 0 && a.Lo.Sign() >= 0 && a.Hi.Cmp(big1) <= 0 {
			t.Mask = true
			return t, nil
		}
		return t, []Flag{{"borrow", fmt.Sprintf("%d-bit subtraction may borrow: minuend >= %#x, subtrahend <= %#x", w, a.Lo, b.Hi)}}
	}
	r.Lo, r.Hi = lo, hi
	if !sg && b.IsConst() && b.Lo.Sign() == 0 {
		r.Bits = a.Bits
	}
	return r.norm(), nil
}

// wrapConst reduces a constant into the type's range (two's complement wrap-around).
func wrapConst(v *big.Int, w int, sg bool) Val {
	u := new(big.Int).Mod(v, pow2(w))
	if sg && u.Cmp(maxOf(w, true)) > 0 {
		u.Sub(u, pow2(w))
	}
	return Const(u, w, sg)
}

// Mul is a * b.
func Mul(a, b Val) (Val, []Flag) {
	w, sg := a.W, a.Signed
	r := Val{W: w, Signed: sg}
	r.Sym = symBin("mul", a.Sym, b.Sym, w)
	c := []*big.Int{new(big.Int).Mul(a.Lo, b.Lo), new(big.Int).Mul(a.Lo, b.Hi), new(big.Int).Mul(a.Hi, b.Lo), new(big.Int).Mul(a.Hi, b.Hi)}
	lo, hi := c[0], c[0]
	for _, x := range c[1:] {
		if x.Cmp(lo) < 0 {
			lo = x
		}
		if x.Cmp(hi) > 0 {
			hi = x
		}
	}
	if a.IsConst() && b.IsConst() && (hi.Cmp(maxOf(w, sg)) > 0 || lo.Cmp(minOf(w, sg)) < 0) {
		return wrapConst(lo, w, sg), []Flag{{"overflow", fmt.Sprintf("%d-bit multiplication of constants wraps", w)}}
	}
	if hi.Cmp(maxOf(w, sg)) > 0 || lo.Cmp(minOf(w, sg)) < 0 {
		t := Top(w, sg)
		t.Sym = r.Sym
		return t, []Flag{{"overflow", fmt.Sprintf("%d-bit multiplication may wrap: operands up to %#x and %#x (product up to 2^%d)", w, a.Hi, b.Hi, hi.BitLen())}}
	}
	r.Lo, r.Hi = lo, hi
	// multiplication by a power of two is a shift of the provenance vector
	if !sg {
		for _, pr := range [][2]Val{{a, b}, {b, a}} {
			if pr[1].IsConst() && pr[1].Lo.Sign() > 0 && new(big.Int).And(pr[1].Lo, new(big.Int).Sub(pr[1].Lo, big1)).Sign() == 0 {
				k := pr[1].Lo.BitLen() - 1
				bits := make([]Bit, w)
				for i := 0; i < w; i++ {
					if i >= k {
						bits[i] = pr[0].bit(i - k)
					}
				}
				r.Bits = bits
			}
		}
	}
	return r.norm(), nil
}

func bitwise(a, b Val, f func(x, y Bit) Bit) []Bit {
	bits := make([]Bit, a.W)
	for i := 0; i < a.W; i++ {
		bits[i] = f(a.bit(i), b.bit(i))
	}
	return bits
}

// And is a & b.
func And(a, b Val) Val {
	w := a.W
	r := Val{W: w, Signed: a.Signed, Lo: new(big.Int), Hi: maxOf(w, a.Signed)}
	if a.Signed {
		r.Lo = minOf(w, true)
		if a.Lo.Sign() >= 0 || b.Lo.Sign() >= 0 {
			r.Lo = new(big.Int)
		}
	}
	r.Bits = bitwise(a, b, func(x, y Bit) Bit {
		switch {
		case x == BZero || y == BZero:
			return BZero
		case x == BOne:
			return y
		case y == BOne:
			return x
		case x == y && x >= 2:
			return x
		}
		return BTop
	})
	if !a.Signed {
		if a.Hi.Cmp(r.Hi) < 0 {
			r.Hi = a.Hi
		}
		if b.Hi.Cmp(r.Hi) < 0 {
			r.Hi = b.Hi
		}
	} else if a.Lo.Sign() >= 0 && a.Hi.Cmp(r.Hi) < 0 {
		r.Hi = a.Hi
	} else if b.Lo.Sign() >= 0 && b.Hi.Cmp(r.Hi) < 0 {
		r.Hi = b.Hi
	}
	r.Sym = symAnd(a.Sym, b.Sym, w)
	// mask & x  is 0 or x
	if a.Mask && b.Lo.Sign() >= 0 {
		r.Lo = new(big.Int)
	}
	if b.Mask && a.Lo.Sign() >= 0 {
		r.Lo = new(big.Int)
	}
	r.Mask = a.Mask && b.Mask
	out := r.norm()
	// identities on constants keep every attribute of the other operand
	if a.IsConst() && a.Sym.isAllOnes() {
		return b
	}
	if b.IsConst() && b.Sym.isAllOnes() {
		return a
	}
	return out
}

// Or is a | b; overlap reports whether both operands may have the same bit set.
func Or(a, b Val) (Val, bool) {
	w := a.W
	r := Val{W: w, Signed: a.Signed}
	overlap := false
	r.Bits = bitwise(a, b, func(x, y Bit) Bit {
		if x != BZero && y != BZero && !(x == y && x >= 2) {
			overlap = true
		}
		switch {
		case x == BOne || y == BOne:
			return BOne
		case x == BZero:
			return y
		case y == BZero:
			return x
		case x == y:
			return x
		}
		return BTop
	})
	if a.Signed {
		r.Lo, r.Hi = minOf(w, true), maxOf(w, true)
		if a.Lo.Sign() >= 0 && b.Lo.Sign() >= 0 {
			r.Lo = new(big.Int)
			if a.Lo.Cmp(b.Lo) > 0 {
				r.Lo = a.Lo
			} else {
				r.Lo = b.Lo
			}
			r.Hi = new(big.Int).Add(a.Hi, b.Hi)
		}
	} else {
		r.Lo = a.Lo
		if b.Lo.Cmp(r.Lo) > 0 {
			r.Lo = b.Lo
		}
		r.Hi = new(big.Int).Add(a.Hi, b.Hi)
	}
	r.Sym = symOr(a.Sym, b.Sym, w)
	if a.IsConst() && a.Lo.Sign() == 0 {
		return b, false
	}
	if b.IsConst() && b.Lo.Sign() == 0 {
		return a, false
	}
	return r.norm(), overlap
}

// Xor is a ^ b. sel, if non-nil, resolves the select-by-mask idiom r ^ (mask & (r ^ t)).
func Xor(a, b Val) Val {
	w := a.W
	r := Val{W: w, Signed: a.Signed}
	r.Bits = bitwise(a, b, func(x, y Bit) Bit {
		switch {
		case x == BZero:
			return y
		case y == BZero:
			return x
		case x == BOne && y == BOne:
			return BZero
		case x == y && x >= 2:
			return BZero
		}
		return BTop
	})
	r.Sym = symXor(a.Sym, b.Sym, w)
	if a.Signed {
		r.Lo, r.Hi = minOf(w, true), maxOf(w, true)
	} else {
		r.Lo = new(big.Int)
		r.Hi = new(big.Int).Add(a.Hi, b.Hi)
	}
	if a.IsConst() && a.Lo.Sign() == 0 {
		return b
	}
	if b.IsConst() && b.Lo.Sign() == 0 {
		return a
	}
	return r.norm()
}

// Not is ^a.
func Not(a Val) Val {
	w := a.W
	r := Val{W: w, Signed: a.Signed}
	r.Bits = make([]Bit, w)
	for i := 0; i < w; i++ {
		switch a.bit(i) {
		case BZero:
			r.Bits[i] = BOne
		case BOne:
			r.Bits[i] = BZero
		default:
			r.Bits[i] = BTop
		}
	}
	if a.Signed {
		r.Lo = new(big.Int).Sub(new(big.Int).Neg(a.Hi), big1)
		r.Hi = new(big.Int).Sub(new(big.Int).Neg(a.Lo), big1)
	} else {
		m := maxOf(w, false)
		r.Lo = new(big.Int).Sub(m, a.Hi)
		r.Hi = new(big.Int).Sub(m, a.Lo)
	}
	r.Sym = symUn("not", a.Sym, w)
	r.Mask = a.Mask
	return r.norm()
}

// Neg is -a.
func Neg(a Val) Val {
	w := a.W
	if a.IsConst() {
		v := new(big.Int).Neg(a.Lo)
		if !a.Signed {
			v.Mod(v, pow2(w))
		} else if v.Cmp(maxOf(w, true)) > 0 {
			v.Sub(v, pow2(w))
		}
		return Const(v, w, a.Signed)
	}
	r := Top(w, a.Signed)
	r.Sym = symUn("neg", a.Sym, w)
	if a.Signed && a.Lo.Cmp(minOf(w, true)) > 0 {
		r.Lo = new(big.Int).Neg(a.Hi)
		r.Hi = new(big.Int).Neg(a.Lo)
	}
	// -x for x in {0,1} is the zero / all-ones mask
	if a.Lo.Sign() >= 0 && a.Hi.Cmp(big1) <= 0 {
		r.Mask = true
	}
	return r.norm()
}

// Shl is a << k (constant k). lost reports whether a possibly-set bit is shifted out.
func Shl(a Val, k int) (Val, bool) {
	w := a.W
	r := Val{W: w, Signed: a.Signed}
	lost := false
	r.Bits = make([]Bit, w)
	for i := 0; i < w; i++ {
		if i >= k {
			r.Bits[i] = a.bit(i - k)
		}
	}
	for i := w - k; i < w; i++ {
		if i >= 0 && a.bit(i) != BZero {
			lost = true
		}
	}
	if k >= w {
		lost = a.mayBits().Sign() != 0
	}
	lo := new(big.Int).Lsh(a.Lo, uint(k))
	hi := new(big.Int).Lsh(a.Hi, uint(k))
	if a.Signed {
		if hi.Cmp(maxOf(w, true)) > 0 || lo.Cmp(minOf(w, true)) < 0 {
			t := Top(w, true)
			t.Sym = symShift("shl", a.Sym, k, w)
			return t, true
		}
		r.Lo, r.Hi = lo, hi
		r.Bits = nil
		r.Sym = symShift("shl", a.Sym, k, w)
		return r.norm(), false
	}
	if hi.Cmp(maxOf(w, false)) > 0 {
		r.Lo, r.Hi = new(big.Int), maxOf(w, false)
	} else {
		r.Lo, r.Hi = lo, hi
	}
	r.Sym = symShift("shl", a.Sym, k, w)
	return r.norm(), lost
}

// Shr is a >> k (constant k); arithmetic for signed types.
func Shr(a Val, k int) Val {
	w := a.W
	r := Val{W: w, Signed: a.Signed}
	if a.Signed {
		r.Lo = new(big.Int).Rsh(a.Lo, uint(k)) // big.Int Rsh is arithmetic (floor) for negatives
		r.Hi = new(big.Int).Rsh(a.Hi, uint(k))
		r.Sym = symShift("sar", a.Sym, k, w)
		return r.norm()
	}
	r.Bits = make([]Bit, w)
	for i := 0; i < w; i++ {
		if i+k < w {
			r.Bits[i] = a.bit(i + k)
		}
	}
	r.Lo = new(big.Int).Rsh(a.Lo, uint(k))
	r.Hi = new(big.Int).Rsh(a.Hi, uint(k))
	r.Sym = symShift("shr", a.Sym, k, w)
	return r.norm()
}

// Convert changes width / signedness. lossy reports whether a possibly-set bit is dropped.
func Convert(a Val, w int, signed bool) (Val, bool) {
	if a.W == w && a.Signed == signed {
		return a, false
	}
	r := Val{W: w, Signed: signed}
	lossy := false
	// value preserved?
	if a.Lo.Cmp(minOf(w, signed)) >= 0 && a.Hi.Cmp(maxOf(w, signed)) <= 0 {
		r.Lo, r.Hi = a.Lo, a.Hi
		if !signed && !a.Signed {
			r.Bits = make([]Bit, w)
			for i := 0; i < w; i++ {
				r.Bits[i] = a.bit(i)
			}
		} else if a.Lo.Sign() >= 0 {
			r.Bits = make([]Bit, w)
			for i := 0; i < w; i++ {
				r.Bits[i] = a.bit(i)
			}
		}
		r.Sym = a.Sym
		if a.W != w && r.Sym != nil {
			r.Sym = mkSym("conv", w, nil, a.Sym)
			if a.Sym.isConst() {
				r.Sym = nil
			}
		}
		r.Mask = a.Mask && a.W == w
		out := r.norm()
		out.Wide, out.Part, out.CarryOf = a.Wide, a.Part, a.CarryOf
		return out, false
	}
	// reinterpretation / truncation
	if a.IsConst() {
		v := new(big.Int).Mod(a.Lo, pow2(w))
		if signed && v.Cmp(maxOf(w, true)) > 0 {
			v.Sub(v, pow2(w))
		}
		return Const(v, w, signed), a.W > w
	}
	r.Bits = make([]Bit, w)
	for i := 0; i < w; i++ {
		r.Bits[i] = a.bit(i)
	}
	for i := w; i < a.W; i++ {
		if a.bit(i) != BZero {
			lossy = true
		}
	}
	r.Lo, r.Hi = minOf(w, signed), maxOf(w, signed)
	if signed {
		// keep bits only if the sign bit is known zero
		if r.Bits[w-1] != BZero {
			// unknown sign: provenance of the low bits is still right, interval is full
		}
	}
	if a.Sym != nil {
		r.Sym = mkSym("conv", w, big.NewInt(int64(boolInt(signed))), a.Sym)
	}
	// same-width sign reinterpretation of a mask stays a mask
	r.Mask = a.Mask && a.W == w
	if signed {
		out := r
		if out.Bits[w-1] == BZero {
			out.Lo = new(big.Int)
			return out.norm(), lossy
		}
		return out, lossy
	}
	return r.norm(), lossy
}

func boolInt(b bool) int {
	if b {
		return 1
	}
	return 0
}

// Cmp evaluates a comparison; known reports whether the result is decided.
func Cmp(op string, a, b Val) (res bool, known bool) {
	switch op {
	case "==":
		if a.IsConst() && b.IsConst() {
			return a.Lo.Cmp(b.Lo) == 0, true
		}
		if a.Hi.Cmp(b.Lo) < 0 || b.Hi.Cmp(a.Lo) < 0 {
			return false, true
		}
		if a.Sym != nil && b.Sym != nil && a.Sym.Key == b.Sym.Key {
			return true, true
		}
		// a bit known to differ decides the comparison
		if a.W == b.W && a.Bits != nil && b.Bits != nil {
			for i := 0; i < a.W; i++ {
				x, y := a.bit(i), b.bit(i)
				if (x == BZero && y == BOne) || (x == BOne && y == BZero) {
					return false, true
				}
			}
		}
	case "!=":
		r, k := Cmp("==", a, b)
		return !r, k
	case "<":
		if a.Hi.Cmp(b.Lo) < 0 {
			return true, true
		}
		if a.Lo.Cmp(b.Hi) >= 0 {
			return false, true
		}
	case "<=":
		if a.Hi.Cmp(b.Lo) <= 0 {
			return true, true
		}
		if a.Lo.Cmp(b.Hi) > 0 {
			return false, true
		}
	case ">":
		return Cmp("<", b, a)
	case ">=":
		return Cmp("<=", b, a)
	}
	return false, false
}
