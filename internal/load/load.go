// Package load loads /repo's current working tree for one build configuration.
package load

import (
	"crypto/sha256"
	"fmt"
	"os"
	"path/filepath"
	"sort"
	"strings"

	"golang.org/x/tools/go/packages"
	"golang.org/x/tools/go/ssa"
	"golang.org/x/tools/go/ssa/ssautil"
)

// ModPath is the module path of the repository under analysis.
const ModPath = "github.com/oasisprotocol/ed25519"

// Config is one build configuration.
type Config struct {
	Name   string
	GOARCH string
	Tags   string // comma separated
	// Expected selections (used by engine K).
	Limb32    bool
	AsmSel    bool
	UnsafeMov bool
}

// Matrix is the configuration matrix of DESIGN §1.4.
var Matrix = []Config{
	{Name: "amd64-default", GOARCH: "amd64", Tags: "", Limb32: false, AsmSel: true, UnsafeMov: true},
	{Name: "amd64-noasm", GOARCH: "amd64", Tags: "noasm", Limb32: false, AsmSel: false, UnsafeMov: true},
	{Name: "amd64-force32", GOARCH: "amd64", Tags: "force32bit", Limb32: true, AsmSel: false, UnsafeMov: true},
	{Name: "amd64-appengine", GOARCH: "amd64", Tags: "appengine", Limb32: false, AsmSel: true, UnsafeMov: false},
	{Name: "amd64-noasm-appengine", GOARCH: "amd64", Tags: "noasm,appengine", Limb32: false, AsmSel: false, UnsafeMov: false},
	{Name: "amd64-force32-appengine", GOARCH: "amd64", Tags: "force32bit,appengine", Limb32: true, AsmSel: false, UnsafeMov: false},
	{Name: "386", GOARCH: "386", Tags: "", Limb32: true, AsmSel: false, UnsafeMov: true},
	{Name: "arm64", GOARCH: "arm64", Tags: "", Limb32: false, AsmSel: false, UnsafeMov: true},
	{Name: "arm", GOARCH: "arm", Tags: "", Limb32: true, AsmSel: false, UnsafeMov: true},
	{Name: "s390x", GOARCH: "s390x", Tags: "", Limb32: true, AsmSel: false, UnsafeMov: true},
	{Name: "ppc64le", GOARCH: "ppc64le", Tags: "", Limb32: false, AsmSel: false, UnsafeMov: true},
}

// QuickNames are the configurations of the quick tier.
var QuickNames = []string{"amd64-default", "amd64-noasm", "amd64-force32", "amd64-noasm-appengine"}

// ByName returns the named configuration.
func ByName(n string) (Config, bool) {
	for _, c := range Matrix {
		if c.Name == n {
			return c, true
		}
	}
	return Config{}, false
}

// Program is a loaded configuration.
type Program struct {
	Cfg   Config
	Repo  string
	Pkgs  []*packages.Package // module packages only, sorted by path
	All   []*packages.Package // including dependencies
	Prog  *ssa.Program
	SSA   map[string]*ssa.Package // by import path (module packages)
	Files map[string][]string     // per module package: go files + other files (relative to repo)
}

// RepoDir returns the repository directory (env EDCHECK_REPO overrides /repo; used only by selftest).
func RepoDir() string {
	if d := os.Getenv("EDCHECK_REPO"); d != "" {
		return d
	}
	return "/repo"
}

func hashFile(p string) string {
	b, err := os.ReadFile(p)
	if err != nil {
		return "missing"
	}
	return fmt.Sprintf("%x", sha256.Sum256(b))
}

// Load loads one configuration with full syntax and builds SSA.
func Load(cfg Config, tests bool) (*Program, error) {
	repo := RepoDir()
	modBefore, sumBefore := hashFile(filepath.Join(repo, "go.mod")), hashFile(filepath.Join(repo, "go.sum"))
	env := []string{}
	for _, e := range os.Environ() {
		k := strings.SplitN(e, "=", 2)[0]
		switch k {
		case "GOFLAGS", "GOPROXY", "GOSUMDB", "GOTOOLCHAIN", "GOWORK", "GOARCH", "GOOS", "CGO_ENABLED":
			continue
		}
		env = append(env, e)
	}
	env = append(env, "GOFLAGS=-mod=mod", "GOPROXY=off", "GOSUMDB=off", "GOTOOLCHAIN=local", "GOWORK=off",
		"GOARCH="+cfg.GOARCH, "GOOS=linux", "CGO_ENABLED=0")
	pc := &packages.Config{
		Mode:  packages.LoadAllSyntax,
		Dir:   repo,
		Env:   env,
		Tests: tests,
	}
	if cfg.Tags != "" {
		pc.BuildFlags = []string{"-tags=" + cfg.Tags}
	}
	initial, err := packages.Load(pc, "./...")
	if err != nil {
		return nil, fmt.Errorf("load %s: %v", cfg.Name, err)
	}
	if modBefore != hashFile(filepath.Join(repo, "go.mod")) || sumBefore != hashFile(filepath.Join(repo, "go.sum")) {
		return nil, fmt.Errorf("load %s: go.mod/go.sum changed during load", cfg.Name)
	}
	p := &Program{Cfg: cfg, Repo: repo, SSA: map[string]*ssa.Package{}, Files: map[string][]string{}}
	var errs []string
	packages.Visit(initial, nil, func(pkg *packages.Package) {
		p.All = append(p.All, pkg)
		for _, e := range pkg.Errors {
			errs = append(errs, pkg.PkgPath+": "+e.Error())
		}
	})
	if len(errs) > 0 {
		sort.Strings(errs)
		return nil, fmt.Errorf("load %s: %d package errors, first: %s", cfg.Name, len(errs), errs[0])
	}
	for _, pkg := range initial {
		if strings.HasPrefix(pkg.PkgPath, ModPath) && !strings.HasSuffix(pkg.ID, ".test") && !strings.Contains(pkg.ID, "[") {
			p.Pkgs = append(p.Pkgs, pkg)
		}
	}
	sort.Slice(p.Pkgs, func(i, j int) bool { return p.Pkgs[i].PkgPath < p.Pkgs[j].PkgPath })
	if len(p.Pkgs) != 5 {
		var names []string
		for _, q := range p.Pkgs {
			names = append(names, q.PkgPath)
		}
		return nil, fmt.Errorf("load %s: expected 5 module packages, got %d (%v)", cfg.Name, len(p.Pkgs), names)
	}
	prog, _ := ssautil.AllPackages(initial, ssa.InstantiateGenerics)
	prog.Build()
	p.Prog = prog
	for _, pkg := range p.Pkgs {
		sp := prog.Package(pkg.Types)
		if sp == nil {
			return nil, fmt.Errorf("load %s: no SSA for %s", cfg.Name, pkg.PkgPath)
		}
		p.SSA[pkg.PkgPath] = sp
		var fl []string
		for _, f := range pkg.GoFiles {
			r, _ := filepath.Rel(repo, f)
			fl = append(fl, r)
		}
		for _, f := range pkg.OtherFiles {
			r, _ := filepath.Rel(repo, f)
			fl = append(fl, r)
		}
		sort.Strings(fl)
		p.Files[pkg.PkgPath] = fl
	}
	return p, nil
}

// Pkg returns the module package with the given path suffix ("" = root).
func (p *Program) Pkg(suffix string) *packages.Package {
	want := ModPath
	if suffix != "" {
		want += "/" + suffix
	}
	for _, q := range p.Pkgs {
		if q.PkgPath == want {
			return q
		}
	}
	return nil
}

// SSAPkg returns the SSA package with the given path suffix.
func (p *Program) SSAPkg(suffix string) *ssa.Package {
	want := ModPath
	if suffix != "" {
		want += "/" + suffix
	}
	return p.SSA[want]
}

// Pos renders a position relative to the repository.
func (p *Program) Pos(pos interface{ IsValid() bool }) string { return "" }
