// Package pt is the path/term engine behind engines G (guards), S (operand
// shapes) and H (hash transcripts): it enumerates the control-flow paths of a
// (nearly) loop-free go/ssa function, following def-use chains and the
// out-parameter discipline of the module to reconstruct, per path, the guard
// atoms that were decided and the *uninterpreted* terms that flow into calls,
// hash writes and results. No arithmetic of the repository is interpreted;
// terms are only compared structurally.
package pt

import (
	"crypto/sha1"
	"encoding/hex"
	"fmt"
	"sort"
	"strings"
)

// Term is an uninterpreted term.
type Term struct {
	Op   string
	Args []*Term
	key  string // memoised structural key
	size int    // memoised tree size (saturating)
	str  string
}

// Leaf makes a leaf term.
func Leaf(s string) *Term { return &Term{Op: s} }

// T makes a term.
func T(op string, args ...*Term) *Term { return &Term{Op: op, Args: args} }

var commutative = map[string]bool{
	"and": true, "or": true, "xor": true, "add": true, "mul": true, "eq": true,
	"cteq": true, "byteseq": true,
	"curve25519.Add": true, "curve25519.Mul": true, "modm.Add": true, "modm.Mul": true,
	"ge25519.Add": true,
}

// Key is a structural hash (commutative operators sorted); equal keys mean equal terms.
func (t *Term) Key() string {
	if t == nil {
		return "nil"
	}
	if t.key != "" {
		return t.key
	}
	parts := make([]string, len(t.Args))
	for i, a := range t.Args {
		parts[i] = a.Key()
	}
	if commutative[t.Op] {
		sort.Strings(parts)
	}
	h := sha1.Sum([]byte(t.Op + "(" + strings.Join(parts, ",") + ")"))
	t.key = hex.EncodeToString(h[:8])
	return t.key
}

// Size is the tree size of the term, saturating at 1<<20.
func (t *Term) Size() int {
	if t == nil {
		return 0
	}
	if t.size != 0 {
		return t.size
	}
	n := 1
	for _, a := range t.Args {
		n += a.Size()
		if n > 1<<20 {
			n = 1 << 20
			break
		}
	}
	t.size = n
	return n
}

// String renders the term canonically (commutative operators sorted). Large
// shared subterms are abbreviated as op@key so that the rendering stays linear
// in the DAG size; equal strings still mean equal terms.
func (t *Term) String() string {
	if t == nil {
		return "<nil>"
	}
	if len(t.Args) == 0 {
		return t.Op
	}
	if t.str != "" {
		return t.str
	}
	parts := make([]string, len(t.Args))
	for i, a := range t.Args {
		if t.Size() > 80 && a.Size() > 24 {
			parts[i] = a.Op + "@" + a.Key()
		} else {
			parts[i] = a.String()
		}
	}
	if commutative[t.Op] {
		sort.Strings(parts)
	}
	var r string
	switch {
	case t.Op == "sub" && len(parts) == 3:
		r = fmt.Sprintf("%s[%s:%s]", parts[0], parts[1], parts[2])
	case t.Op == "at" && len(parts) == 2:
		r = fmt.Sprintf("%s[%s]", parts[0], parts[1])
	default:
		r = t.Op + "(" + strings.Join(parts, ",") + ")"
	}
	t.str = r
	return r
}

// IsConst reports whether the term is an integer/bool/string constant leaf.
func (t *Term) IsConst() bool {
	return t != nil && len(t.Args) == 0 && (strings.HasPrefix(t.Op, "#") || strings.HasPrefix(t.Op, "\""))
}

// Zero is the content of zero-initialised memory.
var Zero = Leaf("ZERO")

// Contains reports whether pred holds for some subterm (DAG-aware).
func (t *Term) Contains(pred func(*Term) bool) bool {
	seen := map[*Term]bool{}
	var rec func(x *Term) bool
	rec = func(x *Term) bool {
		if x == nil || seen[x] {
			return false
		}
		seen[x] = true
		if pred(x) {
			return true
		}
		for _, a := range x.Args {
			if rec(a) {
				return true
			}
		}
		return false
	}
	return rec(t)
}

// Walk visits every distinct subterm once.
func (t *Term) Walk(f func(*Term)) {
	seen := map[*Term]bool{}
	var rec func(x *Term)
	rec = func(x *Term) {
		if x == nil || seen[x] {
			return
		}
		seen[x] = true
		f(x)
		for _, a := range x.Args {
			rec(a)
		}
	}
	rec(t)
}
