package pt

import (
	"fmt"
	"go/constant"
	"go/token"
	"go/types"
	"strings"

	"golang.org/x/tools/go/ssa"

	"verif/internal/ssau"
)

func (it *interp) calleeName(fn *ssa.Function) string {
	if it.m.Name != nil {
		if n := it.m.Name(fn); n != "" {
			return n
		}
	}
	if ssau.InModule(fn) {
		q := ssau.QName(fn)
		// strip the "internal/" prefix for readability
		return strings.TrimPrefix(q, "internal/")
	}
	return fn.String()
}

func (it *interp) argTerms(args []ssa.Value) []*Term {
	out := make([]*Term, len(args))
	for i, a := range args {
		out[i] = it.term(a)
	}
	return out
}

func (it *interp) event(name string, args []*Term, pos ssa.Instruction, res *Term) {
	ev := Event{Callee: name, Args: args, Pos: pos.Pos(), Result: res, Block: it.curBlk}
	if c, ok := pos.(*ssa.Call); ok {
		cc := c.Common()
		if !cc.IsInvoke() {
			for _, a := range cc.Args {
				v := it.get(a)
				ev.Addrs = append(ev.Addrs, addrOfVal(v))
				n := -1
				switch s := v.(type) {
				case slc:
					if k, ok := s.length(); ok {
						n = k
					}
				case tv:
					if _, isSlice := a.Type().Underlying().(*types.Slice); isSlice {
						if k, ok := it.lenFact[s.t.String()]; ok {
							n = k
						} else if k, ok := it.m.TermLen[s.t.String()]; ok {
							n = k
						} else if s.t.Op == "sub" && len(s.t.Args) == 3 {
							// x[lo:hi] of an opaque slice with constant bounds
							lo, ok1 := intOf(s.t.Args[1])
							hi, ok2 := intOf(s.t.Args[2])
							if ok1 && ok2 {
								n = hi - lo
							} else if ok1 {
								if k, ok := it.lenFact[s.t.Args[0].String()]; ok {
									n = k - lo
								} else if k, ok := it.m.TermLen[s.t.Args[0].String()]; ok {
									n = k - lo
								}
							}
						}
					} else {
						n = -2
					}
				default:
					n = -2
				}
				ev.Lens = append(ev.Lens, n)
			}
		}
	}
	it.path.Events = append(it.path.Events, ev)
}

// writeVal overwrites what v designates with the term t.
func (it *interp) writeVal(v val, t *Term) {
	switch x := v.(type) {
	case ptr:
		if x.idx == -1 {
			x.o.Written = true
			x.o.Whole, x.o.Segs, x.o.Fields, x.o.Elems, x.o.Cell, x.o.Clobbered = t, nil, nil, nil, nil, false
		} else if x.idx >= 0 {
			x.o.writeRegion(x.idx, x.idx+1, t, true)
		} else {
			x.o.Clobbered, x.o.Written = true, true
		}
	case slc:
		if n, ok := x.length(); ok && x.lo >= 0 {
			x.o.writeRegion(x.lo, x.lo+n, t, false)
		} else if x.lo == 0 && x.hi == -1 {
			x.o.Written = true
			x.o.Whole, x.o.Segs = t, nil
		} else {
			x.o.Clobbered, x.o.Written = true, true
		}
	case nilv:
	default:
		it.unrec("write through unsupported value %T", v)
	}
}

// writePrefix writes the first n elements designated by slice v.
func (it *interp) writePrefix(v val, n int, t *Term) {
	s, ok := v.(slc)
	if !ok || s.lo < 0 {
		it.writeVal(v, t)
		return
	}
	s.o.writeRegion(s.lo, s.lo+n, t, false)
}

func (it *interp) hashObj(v val) *Obj {
	if p, ok := v.(ptr); ok && p.o.Hash {
		return p.o
	}
	return nil
}

func (it *interp) call(x *ssa.Call) val {
	c := x.Common()
	// interface method calls
	if c.IsInvoke() {
		recv := it.get(c.Value)
		if p, ok := recv.(ptr); ok && it.dyn != nil && it.dyn[p.o] != nil && it.fn.Prog != nil {
			if m := it.fn.Prog.LookupMethod(it.dyn[p.o], c.Method.Pkg(), c.Method.Name()); m != nil && len(m.Blocks) > 0 && ssau.InModule(m) && it.depth < 4 {
				return it.inlineMethod(x, m, recv)
			}
		}
		h := it.hashObj(recv)
		m := c.Method.Name()
		if h != nil {
			switch m {
			case "Write":
				t := it.term(c.Args[0])
				h.Tr = append(h.Tr, t)
				it.event("hash.Write", []*Term{t}, x, nil)
				return tup{[]val{tv{T("len", t)}, nilv{}}}
			case "Reset":
				h.Tr = nil
				it.event("hash.Reset", nil, x, nil)
				return tv{Leaf("void")}
			case "Sum":
				tr := append([]*Term{}, h.Tr...)
				it.path.Sums = append(it.path.Sums, HashSum{Transcript: tr, Pos: x.Pos()})
				digest := T("SHA512", tr...)
				arg := it.get(c.Args[0])
				it.event("hash.Sum", tr, x, digest)
				switch a := arg.(type) {
				case slc:
					if n, ok := a.length(); ok && n == 0 && a.lo >= 0 {
						a.o.writeRegion(a.lo, a.lo+64, digest, false)
						return slc{o: a.o, lo: a.lo, hi: a.lo + 64}
					}
					it.unrec("hash.Sum into a non-empty or unknown slice")
				case nilv:
					o := it.newObj("digest@"+x.Name(), types.NewSlice(types.Typ[types.Byte]))
					o.N, o.Flat = 64, true
					o.Whole, o.Written = digest, false
					return slc{o: o, lo: 0, hi: -1}
				}
				return tv{digest}
			}
		}
		args := append([]*Term{contentOfVal(recv)}, it.argTerms(c.Args)...)
		name := "invoke:" + m
		res := T(name, args...)
		it.event(name, args, x, res)
		return it.resultVal(x, res)
	}
	// builtins
	if b, ok := c.Value.(*ssa.Builtin); ok {
		switch b.Name() {
		case "len":
			a := it.get(c.Args[0])
			if s, ok := a.(slc); ok {
				if n, ok := s.length(); ok {
					return tv{num(n)}
				}
				if s.lo == 0 && s.hi == -1 {
					return tv{T("len", s.o.nameTerm())}
				}
			}
			if p, ok := a.(ptr); ok && p.o.N >= 0 {
				return tv{num(p.o.N)}
			}
			return tv{T("len", contentOfVal(a))}
		case "cap":
			return tv{T("cap", it.term(c.Args[0]))}
		case "copy":
			dst, src := it.get(c.Args[0]), it.get(c.Args[1])
			ds, ok1 := dst.(slc)
			st := contentOfVal(src)
			var dn, sn int
			var dok, sok bool
			if ok1 {
				dn, dok = ds.length()
			}
			if ss, ok := src.(slc); ok {
				sn, sok = ss.length()
			}
			// copy(dst, "constant string"): the bytes of the string, of known length
			if cs, ok := c.Args[1].(*ssa.Const); ok && cs.Value != nil && cs.Value.Kind() == constant.String {
				sn, sok = len(constant.StringVal(cs.Value)), true
				st = T("bytes", st)
			}
			it.event("copy", []*Term{contentOfVal(dst), st}, x, nil)
			switch {
			case dok && sok:
				n := dn
				if sn < n {
					n = sn
					it.writePrefix(dst, n, st)
				} else if ss, isSlc := src.(slc); sn > n && isSlc {
					it.writePrefix(dst, n, ss.o.region(ss.lo, ss.lo+n))
				} else if sn > n {
					it.unrec("copy of a string longer than the destination")
					it.writeVal(dst, st)
				} else {
					it.writePrefix(dst, n, st)
				}
				return tv{num(n)}
			case dok:
				// source length unknown: assume it covers the destination (recorded)
				it.unrec("copy with source of unknown length")
				it.writeVal(dst, st)
			default:
				it.unrec("copy with destination of unknown length")
				it.writeVal(dst, st)
			}
			return tv{Leaf("n")}
		case "append":
			args := it.argTerms(c.Args)
			o := it.newObj("append@"+x.Name(), x.Type())
			o.Leaf = T("append", args...)
			return slc{o: o, lo: 0, hi: -1}
		}
		it.unrec("builtin %s", b.Name())
		return tv{Leaf("?")}
	}
	fn := ssau.ResolveCallee(c)
	if fn == nil {
		it.unrec("unresolved dynamic call %s", x.String())
		return tv{Leaf("?")}
	}
	if !ssau.InModule(fn) {
		return it.external(x, fn)
	}
	return it.moduleCall(x, fn)
}

func (it *interp) resultVal(x *ssa.Call, res *Term) val {
	sig := x.Common().Signature()
	n := sig.Results().Len()
	if n == 0 {
		return tv{Leaf("void")}
	}
	mk := func(t types.Type, term *Term) val {
		switch u := t.Underlying().(type) {
		case *types.Slice:
			o := it.newObj("ret@"+x.Name(), t)
			o.Leaf = term
			return slc{o: o, lo: 0, hi: -1}
		case *types.Pointer:
			o := it.newObj("ret@"+x.Name(), u.Elem())
			o.Leaf = term
			return ptr{o: o, idx: -1}
		}
		return tv{term}
	}
	if n == 1 {
		return mk(sig.Results().At(0).Type(), res)
	}
	vs := make([]val, n)
	for i := 0; i < n; i++ {
		vs[i] = mk(sig.Results().At(i).Type(), T("res", res, num(i)))
	}
	return tup{vs}
}

func (it *interp) external(x *ssa.Call, fn *ssa.Function) val {
	c := x.Common()
	name := fn.String()
	switch name {
	case "crypto/sha512.New":
		o := it.newObj("hash@"+x.Name(), x.Type())
		o.Hash = true
		it.hashes = append(it.hashes, o)
		it.event("sha512.New", nil, x, nil)
		return ptr{o: o, idx: -1}
	case "crypto/sha512.Sum512":
		// the one-shot form of New / Write / Sum: a 64-byte array value
		in := contentOfVal(it.get(c.Args[0]))
		digest := T("SHA512", in)
		it.event("hash.Write", []*Term{in}, x, nil)
		it.event("hash.Sum", []*Term{in}, x, digest)
		it.path.Sums = append(it.path.Sums, HashSum{Transcript: []*Term{in}, Pos: x.Pos()})
		o := it.newObj("digest@"+x.Name(), x.Type())
		o.N = 64
		o.writeRegion(0, 64, digest, false)
		return ptr{o: o, idx: -1}
	case "io.ReadFull":
		r := it.term(c.Args[0])
		buf := it.get(c.Args[1])
		var n *Term = Leaf("?")
		if s, ok := buf.(slc); ok {
			if k, ok := s.length(); ok {
				n = num(k)
			} else if s.lo == -2 {
				n = T("subtract", s.hiT, s.loT)
			}
		}
		data := T("ReadFull", r, n)
		it.event("io.ReadFull", []*Term{r, contentOfVal(buf), n}, x, data)
		it.writeVal(buf, data)
		return tup{[]val{tv{T("res", data, num(0))}, tv{T("res", data, num(1))}}}
	case "crypto/subtle.ConstantTimeCompare":
		a := it.argTerms(c.Args)
		res := T("cteq", a...)
		it.event("cteq", a, x, res)
		return tv{res}
	case "bytes.Equal":
		a := it.argTerms(c.Args)
		res := T("byteseq", a...)
		it.event("byteseq", a, x, res)
		return tv{res}
	case "errors.New", "fmt.Errorf":
		a := it.argTerms(c.Args)
		res := T("error", a...)
		return tv{res}
	case "strconv.Itoa":
		return tv{T("itoa", it.argTerms(c.Args)...)}
	case "golang.org/x/crypto/curve25519.ScalarMult":
		a := it.argTerms(c.Args[1:])
		res := T("x/crypto.ScalarMult", a...)
		it.event("x/crypto.ScalarMult", a, x, res)
		it.writeVal(it.get(c.Args[0]), res)
		return tv{Leaf("void")}
	case "crypto/subtle.ConstantTimeCopy":
		a := it.argTerms(c.Args)
		res := T("ctcopy", a...)
		it.event("ctcopy", a, x, res)
		it.writeVal(it.get(c.Args[1]), res)
		return tv{Leaf("void")}
	}
	args := it.argTerms(c.Args)
	res := T("ext:"+name, args...)
	it.event("ext:"+name, args, x, res)
	it.unrec("unmodelled external %s", name)
	return it.resultVal(x, res)
}

// accessorField recognises `func (r *T) F() *U { return &r.f }`.
func accessorField(fn *ssa.Function) (int, bool) {
	if len(fn.Blocks) != 1 || len(fn.Params) != 1 {
		return 0, false
	}
	var fa *ssa.FieldAddr
	for _, in := range fn.Blocks[0].Instrs {
		switch x := in.(type) {
		case *ssa.DebugRef:
		case *ssa.FieldAddr:
			if fa != nil || x.X != fn.Params[0] {
				return 0, false
			}
			fa = x
		case *ssa.Return:
			if fa != nil && len(x.Results) == 1 && x.Results[0] == fa {
				return fa.Field, true
			}
			return 0, false
		default:
			return 0, false
		}
	}
	return 0, false
}

// isReset recognises a method that zeroes its receiver: a single loop storing 0 to every element, or calls to such methods on every field.
func isReset(fn *ssa.Function) bool {
	if fn.Signature.Recv() == nil || fn.Signature.Params().Len() != 0 || fn.Signature.Results().Len() != 0 {
		return false
	}
	if fn.Name() != "Reset" {
		return false
	}
	// every store in the body must store constant zero; every call must be a Reset
	stores := 0
	for _, b := range fn.Blocks {
		for _, in := range b.Instrs {
			switch x := in.(type) {
			case *ssa.Store:
				c, ok := x.Val.(*ssa.Const)
				if !ok {
					return false
				}
				if c.Value == nil {
					// `*r = T{}`: the zero value of an aggregate stored through the receiver
					if x.Addr != fn.Params[0] {
						return false
					}
				} else if c.Value.ExactString() != "0" {
					return false
				}
				stores++
			case *ssa.Call:
				f := x.Common().StaticCallee()
				if f == nil || !isReset(f) {
					return false
				}
				stores++
			}
		}
	}
	return stores > 0
}

func singleBlockInlineable(fn *ssa.Function) bool {
	if len(fn.Blocks) != 1 || len(fn.Blocks[0].Instrs) > 40 {
		return false
	}
	// a predicate-like helper (one scalar result) may call modelled primitives; its calls are interpreted like the
	// caller's own. Helpers that write through their parameters are the named primitives of the specifications and stay
	// opaque unless they only reset / access fields.
	predicate := false
	if rs := fn.Signature.Results(); rs.Len() == 1 {
		if _, ok := rs.At(0).Type().Underlying().(*types.Basic); ok {
			predicate = true
		}
	}
	for _, in := range fn.Blocks[0].Instrs {
		if c, ok := in.(*ssa.Call); ok {
			f := c.Common().StaticCallee()
			if f == nil {
				if _, isBuiltin := c.Common().Value.(*ssa.Builtin); isBuiltin {
					continue
				}
				return false
			}
			if _, isAcc := accessorField(f); isAcc || isReset(f) {
				continue
			}
			if !predicate {
				return false
			}
		}
	}
	return true
}

func (it *interp) moduleCall(x *ssa.Call, fn *ssa.Function) val {
	c := x.Common()
	name := it.calleeName(fn)
	// accessors and resets
	if f, ok := accessorField(fn); ok {
		if p, ok := it.get(c.Args[0]).(ptr); ok && p.idx == -1 {
			return ptr{o: p.o.field(f, nil, it), idx: -1}
		}
	}
	if isReset(fn) {
		it.writeVal(it.get(c.Args[0]), Zero)
		it.event(name, nil, x, nil)
		return tv{Leaf("void")}
	}
	if it.m.InlineAll != nil && it.m.InlineAll(fn) && it.depth < 4 && len(fn.Blocks) > 0 {
		return it.inlineFull(x, fn)
	}
	// small helpers are interpreted in place only when they are private to the package under analysis (unexported
	// functions and methods); exported functions of other packages are the named primitives of the terms
	samePkg := fn.Pkg != nil && it.fn.Pkg != nil && fn.Pkg == it.fn.Pkg
	if it.fn.Parent() != nil {
		top := it.fn
		for top.Parent() != nil {
			top = top.Parent()
		}
		samePkg = fn.Pkg == top.Pkg
	}
	private := fn.Parent() != nil || (samePkg && (fn.Signature.Recv() != nil || !token.IsExported(fn.Name())))
	if !it.m.NoInline && private && singleBlockInlineable(fn) && it.depth < 3 && !it.m.Pure[ssau.QName(fn)] && (it.m.Name == nil || it.m.Name(fn) == "") {
		return it.inline(x, fn)
	}
	args := it.argTerms(c.Args)
	if it.m.HashAppend[name] {
		if h := it.hashObj(it.get(c.Args[0])); h != nil {
			t := T(name, args[1:]...)
			h.Tr = append(h.Tr, t)
			it.event(name, args[1:], x, nil)
			return tv{Leaf("void")}
		}
		it.unrec("%s called on a non-hash writer", name)
	}
	q := ssau.QName(fn)
	if it.m.Pure[q] {
		res := T(name, args...)
		it.event(name, args, x, res)
		rv := it.resultVal(x, res)
		if n, ok := it.m.ResultLen[name]; ok {
			if s, ok := rv.(slc); ok {
				s.o.N = n
			}
		}
		return rv
	}
	// SwapConditional writes both operands
	if fn.Name() == "SwapConditional" && len(c.Args) == 3 {
		a, b := it.get(c.Args[0]), it.get(c.Args[1])
		it.event(name, args, x, nil)
		it.writeVal(a, T(name+"#a", args...))
		it.writeVal(b, T(name+"#b", args...))
		return tv{Leaf("void")}
	}
	// default: the first pointer/slice argument is the out-parameter
	if len(c.Args) > 0 {
		first := it.get(c.Args[0])
		switch first.(type) {
		case ptr, slc:
			in := args[1:]
			if it.m.InOut[q] {
				in = args
			}
			res := T(name, in...)
			it.event(name, args, x, res)
			it.writeOut(first, fn, res)
			sig := c.Signature()
			if sig.Results().Len() == 0 {
				return tv{Leaf("void")}
			}
			return it.resultVal(x, T("ok:"+name, in...))
		}
	}
	res := T(name, args...)
	it.event(name, args, x, res)
	return it.resultVal(x, res)
}

// writeOut writes the out-parameter; byte-slice outs of fixed-size serialisers write 32 bytes.
func (it *interp) writeOut(first val, fn *ssa.Function, res *Term) {
	if s, ok := first.(slc); ok && s.lo >= 0 {
		// Pack / Contract write exactly 32 bytes
		if fn.Name() == "Pack" || fn.Name() == "Contract" {
			s.o.writeRegion(s.lo, s.lo+32, res, false)
			return
		}
	}
	it.writeVal(first, res)
}

func (it *interp) inline(x *ssa.Call, fn *ssa.Function) val {
	c := x.Common()
	sub := &interp{fn: fn, m: it.m, env: map[ssa.Value]val{}, globals: it.globals, path: it.path, valu: it.valu,
		decs: it.decs, dpos: it.dpos, visits: map[*ssa.BasicBlock]int{}, depth: it.depth + 1}
	for i, p := range fn.Params {
		sub.env[p] = it.get(c.Args[i])
	}
	if len(fn.FreeVars) > 0 {
		cv, ok := it.get(c.Value).(clo)
		if !ok || len(cv.binds) != len(fn.FreeVars) {
			// resolve through the MakeClosure found by ResolveCallee
			it.unrec("closure call with unresolved bindings")
		} else {
			for i, fv := range fn.FreeVars {
				sub.env[fv] = cv.binds[i]
			}
		}
	}
	sub.curBlk, sub.lazy = it.curBlk, it.lazy
	var ret val = tv{Leaf("void")}
	for _, in := range fn.Blocks[0].Instrs {
		switch r := in.(type) {
		case *ssa.Return:
			if len(r.Results) == 1 {
				ret = sub.get(r.Results[0])
			} else if len(r.Results) > 1 {
				var vs []val
				for _, e := range r.Results {
					vs = append(vs, sub.get(e))
				}
				ret = tup{vs}
			}
		case *ssa.Panic:
			it.unrec("inlined helper panics")
		default:
			sub.instr(in)
		}
	}
	it.hashes = append(it.hashes, sub.hashes...)
	it.objs = append(it.objs, sub.objs...)
	_ = fmt.Sprint
	return ret
}

// inlineFull interprets a (possibly multi-block, loop-carrying) callee in place with the caller's memory; used when a
// rule needs the callee's effect element by element (unrolled-stage analysis through delegating wrappers).
func (it *interp) inlineFull(x *ssa.Call, fn *ssa.Function) val {
	c := x.Common()
	if it.lenFact == nil {
		it.lenFact = map[string]int{} // shared with the callee: a length guard in one helper holds in the next
	}
	sub := &interp{fn: fn, m: it.m, env: map[ssa.Value]val{}, globals: it.globals, path: it.path, valu: it.valu,
		decs: it.decs, dpos: it.dpos, visits: map[*ssa.BasicBlock]int{}, depth: it.depth + 1, inlined: true, lenFact: it.lenFact, params: it.params, lazy: it.lazy, dyn: it.dyn}
	for i, p := range fn.Params {
		sub.env[p] = it.get(c.Args[i])
	}
	if len(fn.FreeVars) > 0 {
		if cv, ok := it.get(c.Value).(clo); ok && len(cv.binds) == len(fn.FreeVars) {
			for i, fv := range fn.FreeVars {
				sub.env[fv] = cv.binds[i]
			}
		}
	}
	b := fn.Blocks[0]
	var prev *ssa.BasicBlock
	var ret val = tv{Leaf("void")}
	kind := it.path.Kind
	for steps := 0; steps < 100000; steps++ {
		sub.visits[b]++
		if sub.visits[b] > 1200 {
			it.unrec("inlined callee %s loops too long", fn.Name())
			break
		}
		sub.curBlk = b
		next, done := sub.block(b, prev)
		if sub.restart {
			it.restart = true
			break
		}
		if done {
			if it.path.Kind == "return" {
				switch len(sub.retVals) {
				case 0:
				case 1:
					ret = sub.retVals[0]
				default:
					ret = tup{sub.retVals}
				}
			}
			break
		}
		prev, b = b, next
	}
	// the callee's return must not terminate the caller's path
	if it.path.Kind != "panic" {
		it.path.Kind = kind
		it.path.Results = nil
	}
	it.decs, it.dpos = sub.decs, sub.dpos
	it.hashes = append(it.hashes, sub.hashes...)
	it.objs = append(it.objs, sub.objs...)
	return ret
}

// inlineMethod interprets a devirtualised interface method call in place (receiver of known dynamic type).
func (it *interp) inlineMethod(x *ssa.Call, fn *ssa.Function, recv val) val {
	c := x.Common()
	if it.lenFact == nil {
		it.lenFact = map[string]int{}
	}
	sub := &interp{fn: fn, m: it.m, env: map[ssa.Value]val{}, globals: it.globals, path: it.path, valu: it.valu,
		decs: it.decs, dpos: it.dpos, visits: map[*ssa.BasicBlock]int{}, depth: it.depth + 1, inlined: true, lenFact: it.lenFact, params: it.params, lazy: it.lazy, dyn: it.dyn}
	if len(fn.Params) != len(c.Args)+1 {
		it.unrec("devirtualised call with unexpected arity")
		return tv{Leaf("?")}
	}
	sub.env[fn.Params[0]] = recv
	for i, a := range c.Args {
		sub.env[fn.Params[i+1]] = it.get(a)
	}
	b := fn.Blocks[0]
	var prev *ssa.BasicBlock
	var ret val = tv{Leaf("void")}
	kind := it.path.Kind
	for steps := 0; steps < 10000; steps++ {
		sub.visits[b]++
		if sub.visits[b] > 200 {
			it.unrec("devirtualised callee %s loops too long", fn.Name())
			break
		}
		sub.curBlk = b
		next, done := sub.block(b, prev)
		if sub.restart {
			it.restart = true
			break
		}
		if done {
			if it.path.Kind == "return" {
				switch len(sub.retVals) {
				case 0:
				case 1:
					ret = sub.retVals[0]
				default:
					ret = tup{sub.retVals}
				}
			}
			break
		}
		prev, b = b, next
	}
	if it.path.Kind != "panic" {
		it.path.Kind = kind
		it.path.Results = nil
	}
	it.decs, it.dpos = sub.decs, sub.dpos
	it.hashes = append(it.hashes, sub.hashes...)
	it.objs = append(it.objs, sub.objs...)
	return ret
}
