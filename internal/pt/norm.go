package pt

import (
	"strconv"
	"strings"
)

// byteTable evaluates a term built from bitwise operators, constants and a
// single byte leaf as a function on all 256 byte values (a finite truth table,
// so `(x&127)|64` and `(x|64)&127` are the same function).
func byteTable(t *Term, leaf string) ([256]uint8, bool) {
	var out [256]uint8
	for v := 0; v < 256; v++ {
		r, ok := evalByte(t, leaf, v)
		if !ok {
			return out, false
		}
		out[v] = uint8(r)
	}
	return out, true
}

// ByteFunc2 evaluates a bitwise term over two byte leaves as a 256x256 table and compares it with want.
func ByteFunc2(t *Term, leafA, leafB string, want func(a, b int) int) bool {
	for a := 0; a < 256; a++ {
		for b := 0; b < 256; b++ {
			r, ok := evalByteEnv(t, map[string]int{leafA: a, leafB: b})
			if !ok || r != want(a, b)&0xff {
				return false
			}
		}
	}
	return true
}

// ByteFunc1 evaluates a bitwise term over one byte leaf and compares it with want.
func ByteFunc1(t *Term, leaf string, want func(a int) int) bool {
	for a := 0; a < 256; a++ {
		r, ok := evalByteEnv(t, map[string]int{leaf: a})
		if !ok || r != want(a)&0xff {
			return false
		}
	}
	return true
}

func evalByteEnv(t *Term, env map[string]int) (int, bool) {
	if v, ok := env[t.String()]; ok {
		return v, true
	}
	if len(t.Args) == 0 && strings.HasPrefix(t.Op, "#") {
		n, err := strconv.Atoi(t.Op[1:])
		return n, err == nil
	}
	if len(t.Args) == 2 {
		a, ok1 := evalByteEnv(t.Args[0], env)
		b, ok2 := evalByteEnv(t.Args[1], env)
		if !ok1 || !ok2 {
			return 0, false
		}
		switch t.Op {
		case "and":
			return a & b, true
		case "or":
			return a | b, true
		case "xor":
			return a ^ b, true
		case "andnot":
			return a &^ b, true
		case "shl":
			return (a << uint(b)) & 0xff, true
		case "shr":
			return a >> uint(b), true
		}
	}
	if len(t.Args) == 1 && t.Op == "compl" {
		a, ok := evalByteEnv(t.Args[0], env)
		return (^a) & 0xff, ok
	}
	if len(t.Args) == 1 && strings.HasPrefix(t.Op, "conv:") {
		return evalByteEnv(t.Args[0], env)
	}
	return 0, false
}

func evalByte(t *Term, leaf string, v int) (int, bool) {
	if t.String() == leaf {
		return v, true
	}
	if len(t.Args) == 0 && strings.HasPrefix(t.Op, "#") {
		n, err := strconv.Atoi(t.Op[1:])
		return n, err == nil
	}
	if len(t.Args) == 2 {
		a, ok1 := evalByte(t.Args[0], leaf, v)
		b, ok2 := evalByte(t.Args[1], leaf, v)
		if !ok1 || !ok2 {
			return 0, false
		}
		switch t.Op {
		case "and":
			return a & b, true
		case "or":
			return a | b, true
		case "xor":
			return a ^ b, true
		case "andnot":
			return a &^ b, true
		case "shl":
			return (a << uint(b)) & 0xff, true
		case "shr":
			return a >> uint(b), true
		}
	}
	if len(t.Args) == 1 && t.Op == "compl" {
		a, ok := evalByte(t.Args[0], leaf, v)
		return (^a) & 0xff, ok
	}
	if len(t.Args) == 1 && strings.HasPrefix(t.Op, "conv:") {
		return evalByte(t.Args[0], leaf, v)
	}
	return 0, false
}

// clampOf recognises cat(byte(f0(X[0])), X[1:31], byte(f31(X[31])), rest...) with
// f0(v) = v&248 and f31(v) = (v&127)|64 as function tables, and returns X and the rest.
func clampOf(t *Term) (x *Term, rest []*Term, ok bool) {
	if t.Op != "cat" || len(t.Args) < 3 {
		return nil, nil, false
	}
	b0, mid, b31 := t.Args[0], t.Args[1], t.Args[2]
	if b0.Op != "byte" || b31.Op != "byte" || mid.Op != "sub" || len(mid.Args) != 3 {
		return nil, nil, false
	}
	if mid.Args[1].Op != "#1" || mid.Args[2].Op != "#31" {
		return nil, nil, false
	}
	x = mid.Args[0]
	l0 := T("at", x, Leaf("#0")).String()
	l31 := T("at", x, Leaf("#31")).String()
	t0, ok0 := byteTable(b0.Args[0], l0)
	t31, ok31 := byteTable(b31.Args[0], l31)
	if !ok0 || !ok31 {
		return nil, nil, false
	}
	for v := 0; v < 256; v++ {
		if t0[v] != uint8(v&248) || t31[v] != uint8((v&127)|64) {
			return nil, nil, false
		}
	}
	return x, t.Args[3:], true
}

// Normalise rewrites recognised byte-level idioms into named operators:
// the RFC 7748/8032 clamp on the first 32 bytes of X becomes clamp(X[0:32]).
func Normalise(t *Term) *Term { return normalise(t, map[*Term]*Term{}) }

func normalise(t *Term, memo map[*Term]*Term) *Term {
	if t == nil {
		return nil
	}
	if len(t.Args) == 0 {
		return t
	}
	if r, ok := memo[t]; ok {
		return r
	}
	args := make([]*Term, len(t.Args))
	changed := false
	for i, a := range t.Args {
		args[i] = normalise(a, memo)
		if args[i] != a {
			changed = true
		}
	}
	n := t
	if changed {
		n = &Term{Op: t.Op, Args: args}
	}
	if x, rest, ok := clampOf(n); ok {
		c := T("clamp", T("sub", x, Leaf("#0"), Leaf("#32")))
		if len(rest) == 0 {
			n = c
		} else {
			n = T("cat", append([]*Term{c}, rest...)...)
		}
	}
	memo[t] = n
	return n
}

// NormalisePath normalises every term of a path in place.
func NormalisePath(p *Path) {
	for i := range p.Results {
		p.Results[i] = Normalise(p.Results[i])
	}
	for i := range p.Sums {
		for j := range p.Sums[i].Transcript {
			p.Sums[i].Transcript[j] = Normalise(p.Sums[i].Transcript[j])
		}
	}
	for i := range p.Events {
		for j := range p.Events[i].Args {
			p.Events[i].Args[j] = Normalise(p.Events[i].Args[j])
		}
		p.Events[i].Result = Normalise(p.Events[i].Result)
	}
	for k, v := range p.Finals {
		p.Finals[k] = Normalise(v)
	}
}
