package pt

import (
	"fmt"
	"go/constant"
	"go/token"
	"go/types"
	"sort"
	"strings"

	"golang.org/x/tools/go/ssa"

	"verif/internal/ssau"
)

// ---- abstract values -------------------------------------------------------

type val interface{}

type tv struct{ t *Term } // scalar as term
type ptr struct {         // pointer to object / element
	o    *Obj
	idx  int   // -1 whole object, >=0 element, -2 unknown element
	idxT *Term // when idx == -2
}
type slc struct { // slice into an array-like object
	o      *Obj
	lo, hi int   // hi == -1: up to the (possibly unknown) end; lo == -2: symbolic
	loT    *Term // symbolic bounds (when lo == -2)
	hiT    *Term
}
type tup struct{ vs []val }
type clo struct {
	fn    *ssa.Function
	binds []val
}
type nilv struct{ typ types.Type }

// Seg is a written part of an array-like object.
type Seg struct {
	Lo, Hi int
	Src    *Term // value term: for Single the element value, else a region term covering exactly [Lo,Hi)
	Single bool
}

// Obj is an abstract memory object.
type Obj struct {
	Name      string
	Leaf      *Term // base term for parameter / global objects
	N         int   // number of elements (-1 unknown)
	Flat      bool  // array/slice of scalars
	Segs      []Seg
	Whole     *Term
	Fields    map[int]*Obj
	Elems     map[int]*Obj
	Cell      val
	Hash      bool
	Tr        []*Term
	Clobbered bool
	Param     int
	Written   bool
	typ       types.Type
}

// AtomVal is one decided guard atom on a path.
type AtomVal struct {
	Key   string
	T     *Term
	Val   bool
	Pos   token.Pos
	Loop  bool
	Block *ssa.BasicBlock
}

// Event is a call encountered on a path.
type Event struct {
	Callee string
	Args   []*Term
	Addrs  []*Term // address terms of pointer/slice arguments (nil for scalars)
	Lens   []int   // known length of each slice argument on this path (-1: unknown / not a slice)
	Pos    token.Pos
	Result *Term
	Block  *ssa.BasicBlock
}

// HashSum is one finalised hash transcript.
type HashSum struct {
	Transcript []*Term
	Pos        token.Pos
}

// Path is the summary of one control-flow path.
type Path struct {
	Atoms    []AtomVal
	Kind     string          // "return", "panic", or for regions "stop"
	StopAt   *ssa.BasicBlock // region mode: the block at which the path stopped
	From     *ssa.BasicBlock // region mode: the last block executed before stopping
	Results  []*Term
	Events   []Event
	Sums     []HashSum
	Finals   map[string]*Term // final contents of written parameter objects, keyed P<i>
	HashOpen []string         // hash objects with a non-empty transcript at exit
	ExitPos  token.Pos
	Unrec    []string  // constructs the engine could not model on this path
	Bounds   []BoundOb // constant-index / constant-bound accesses to slices, with the length known on this path
}

// BoundOb is one bounds obligation: an access needs Need elements, the path knows Have (-1: nothing known).
type BoundOb struct {
	What string
	Need int
	Have int
	Pos  token.Pos
}

// Valuation returns atom key -> value for the non-loop atoms.
func (p *Path) Valuation() map[string]bool {
	m := map[string]bool{}
	for _, a := range p.Atoms {
		if !a.Loop {
			m[a.Key] = a.Val
		}
	}
	return m
}

// Model configures how calls are summarised.
type Model struct {
	// Pure lists module callees (QName) that write none of their arguments.
	Pure map[string]bool
	// InOut lists module callees whose first argument is read as well as written.
	InOut map[string]bool
	// Name maps a callee to the operator name used in terms (roles); default QName.
	Name func(*ssa.Function) string
	// HashAppend lists callees (by Name) that append T(name, otherArgs...) to the hash passed as first argument.
	HashAppend map[string]bool
	// Facts gives known lengths of parameter slices: param index -> length.
	Facts map[int]int
	// NoInline disables inlining of single-block helpers.
	NoInline bool
	// InlineAll, if set, selects callees that are interpreted in place (loops included) instead of being summarised.
	InlineAll func(fn *ssa.Function) bool
	// ResultLen gives the known length of the slice returned by a callee (by Name).
	ResultLen map[string]int
	// TermLen gives lengths of opaque slice terms established outside the analysed region (e.g. by an earlier loop).
	TermLen map[string]int
	// MaxPaths bounds path enumeration.
	MaxPaths int
	// symbolic records loop headers whose exit condition depends on abstract data (their counters stay opaque);
	// all other loops are unrolled with concrete counters.
	symbolic map[*ssa.BasicBlock]bool
}

type interp struct {
	fn      *ssa.Function
	m       *Model
	env     map[ssa.Value]val
	objs    []*Obj
	params  []*Obj
	globals map[*ssa.Global]*Obj
	path    *Path
	valu    map[string]bool
	decs    []bool
	dpos    int
	newDec  int // number of fresh decisions taken beyond the prefix
	visits  map[*ssa.BasicBlock]int
	hashes  []*Obj
	depth   int
	lenFact map[string]int // lengths of opaque slice terms established by decided guards on this path
	start   *ssa.BasicBlock
	stopAt  func(b *ssa.BasicBlock) bool
	curBlk  *ssa.BasicBlock
	lazy    bool
	restart bool
	dyn     map[*Obj]types.Type // dynamic type of pointers that were boxed into an interface on this path
	inlined bool                // running as an inlined callee: Return hands its values to the caller
	retVals []val               // the values of the Return that ended an inlined callee
}

// Enumerate enumerates the paths of fn.
func Enumerate(fn *ssa.Function, m *Model) ([]*Path, error) {
	return EnumerateRegion(fn, m, nil, nil)
}

// EnumerateRegion enumerates the paths that start at block start (nil = entry) and end at a return, a panic,
// or on reaching a block for which stopAt is true (the start block itself counts when it is re-entered).
// Values defined outside the region are evaluated lazily (phis become opaque leaves, allocations become
// named cells) so that a loop body can be analysed for one arbitrary iteration.
func EnumerateRegion(fn *ssa.Function, m *Model, start *ssa.BasicBlock, stopAt func(b *ssa.BasicBlock) bool) ([]*Path, error) {
	if m.MaxPaths == 0 {
		m.MaxPaths = 4000
	}
	if m.symbolic == nil {
		m.symbolic = map[*ssa.BasicBlock]bool{}
	}
	var out []*Path
	work := [][]bool{{}}
	for len(work) > 0 {
		decs := work[len(work)-1]
		work = work[:len(work)-1]
		it := &interp{fn: fn, m: m, env: map[ssa.Value]val{}, globals: map[*ssa.Global]*Obj{}, path: &Path{Finals: map[string]*Term{}},
			valu: map[string]bool{}, decs: decs, visits: map[*ssa.BasicBlock]int{}, start: start, stopAt: stopAt, lazy: start != nil}
		taken, pruned, err := it.run()
		if err == errRestart {
			// a loop turned out to be data-dependent: start over with its header marked symbolic
			out = nil
			work = [][]bool{{}}
			continue
		}
		if err != nil {
			return out, err
		}
		// every decision beyond the prefix was taken as "true"; schedule the alternatives
		for i := len(decs); i < len(taken); i++ {
			alt := append(append([]bool{}, taken[:i]...), !taken[i])
			work = append(work, alt)
		}
		if !pruned {
			out = append(out, it.path)
		}
		if len(out) > m.MaxPaths {
			return out, fmt.Errorf("more than %d paths in %s", m.MaxPaths, ssau.QName(fn))
		}
	}
	return out, nil
}

func (it *interp) unrec(format string, a ...interface{}) {
	s := fmt.Sprintf(format, a...)
	for _, u := range it.path.Unrec {
		if u == s {
			return
		}
	}
	it.path.Unrec = append(it.path.Unrec, s)
}

func (it *interp) newObj(name string, t types.Type) *Obj {
	o := &Obj{Name: name, N: -1, Param: -1, typ: t}
	it.shape(o, t)
	it.objs = append(it.objs, o)
	return o
}

func isScalar(t types.Type) bool {
	_, ok := t.Underlying().(*types.Basic)
	return ok
}

func (it *interp) shape(o *Obj, t types.Type) {
	switch u := t.Underlying().(type) {
	case *types.Array:
		o.N = int(u.Len())
		o.Flat = isScalar(u.Elem())
	case *types.Slice:
		o.Flat = isScalar(u.Elem())
	}
}

func constTerm(c *ssa.Const) *Term {
	if c.Value == nil {
		return Leaf("nil")
	}
	switch c.Value.Kind() {
	case constant.String:
		return Leaf(fmt.Sprintf("%q", constant.StringVal(c.Value)))
	case constant.Bool:
		if constant.BoolVal(c.Value) {
			return Leaf("#true")
		}
		return Leaf("#false")
	default:
		return Leaf("#" + c.Value.ExactString())
	}
}

func intOf(t *Term) (int, bool) {
	if t == nil || len(t.Args) != 0 || !strings.HasPrefix(t.Op, "#") {
		return 0, false
	}
	var n int
	if _, err := fmt.Sscanf(t.Op, "#%d", &n); err != nil {
		return 0, false
	}
	if fmt.Sprintf("#%d", n) != t.Op {
		return 0, false
	}
	return n, true
}

func num(n int) *Term { return Leaf(fmt.Sprintf("#%d", n)) }

// ---- memory ---------------------------------------------------------------

func (o *Obj) base() *Term {
	if o.Whole != nil {
		return o.Whole
	}
	if o.Leaf != nil {
		return o.Leaf
	}
	return Zero
}

func subTerm(src *Term, lo, hi int, total int) *Term {
	if src == Zero {
		return Zero
	}
	if lo == 0 && hi == total && total >= 0 {
		return src
	}
	h := Leaf("")
	if hi >= 0 {
		h = num(hi)
	}
	return T("sub", src, num(lo), h)
}

// region returns the content term of elements [lo,hi) (hi == -1: to the end).
func (o *Obj) region(lo, hi int) *Term {
	if o.Clobbered {
		return Leaf("TOP")
	}
	end := hi
	if end < 0 {
		end = o.N
	}
	openTail := false
	if end < 0 {
		// unknown length: describe up to the last written element, then the rest of the base
		maxHi := lo
		for _, s := range o.Segs {
			if s.Hi > maxHi {
				maxHi = s.Hi
			}
		}
		if maxHi == lo {
			if lo == 0 {
				return o.base()
			}
			return subTerm(o.base(), lo, -1, -2)
		}
		end = maxHi
		openTail = true
	}
	var parts []*Term
	pos := lo
	segs := append([]Seg{}, o.Segs...)
	sort.Slice(segs, func(i, j int) bool { return segs[i].Lo < segs[j].Lo })
	emitBase := func(a, b int) {
		if a < b {
			parts = append(parts, subTerm(o.base(), a, b, o.N))
		}
	}
	for _, s := range segs {
		if s.Hi <= pos || s.Lo >= end {
			continue
		}
		if s.Lo > pos {
			emitBase(pos, s.Lo)
			pos = s.Lo
		}
		a, b := pos, s.Hi
		if b > end {
			b = end
		}
		if s.Single {
			parts = append(parts, T("byte", s.Src))
		} else {
			parts = append(parts, subTerm(s.Src, a-s.Lo, b-s.Lo, s.Hi-s.Lo))
		}
		pos = b
	}
	emitBase(pos, end)
	if openTail {
		parts = append(parts, subTerm(o.base(), end, -1, -2))
	}
	// merge adjacent ZERO parts
	var merged []*Term
	for _, p := range parts {
		if p == Zero && len(merged) > 0 && merged[len(merged)-1] == Zero {
			continue
		}
		merged = append(merged, p)
	}
	if len(merged) == 0 {
		return Leaf("EMPTY")
	}
	if len(merged) == 1 {
		if merged[0].Op == "byte" {
			return merged[0].Args[0]
		}
		return merged[0]
	}
	return T("cat", merged...)
}

// writeRegion overwrites elements [lo,hi) with src (a term denoting exactly that region).
func (o *Obj) writeRegion(lo, hi int, src *Term, single bool) {
	o.Written = true
	if lo == 0 && hi == o.N && o.N >= 0 && !single {
		o.Segs = nil
		o.Whole = src
		return
	}
	var ns []Seg
	for _, s := range o.Segs {
		if s.Hi <= lo || s.Lo >= hi {
			ns = append(ns, s)
			continue
		}
		// overlap: keep the non-overlapped pieces
		if s.Lo < lo {
			ns = append(ns, Seg{Lo: s.Lo, Hi: lo, Src: subTerm(s.Src, 0, lo-s.Lo, s.Hi-s.Lo)})
		}
		if s.Hi > hi {
			ns = append(ns, Seg{Lo: hi, Hi: s.Hi, Src: subTerm(s.Src, hi-s.Lo, s.Hi-s.Lo, s.Hi-s.Lo)})
		}
	}
	ns = append(ns, Seg{Lo: lo, Hi: hi, Src: src, Single: single})
	o.Segs = ns
}

func (o *Obj) content() *Term {
	if o.Clobbered {
		return Leaf("TOP")
	}
	if o.Hash {
		return T("hashstate", o.Tr...)
	}
	if len(o.Fields) > 0 && o.dirty() {
		st, ok := o.typ.Underlying().(*types.Struct)
		if ok {
			args := make([]*Term, st.NumFields())
			for i := range args {
				if f, ok := o.Fields[i]; ok {
					args[i] = f.content()
				} else if o.base() == Zero {
					args[i] = Zero
				} else {
					args[i] = T("fld", o.base(), Leaf(st.Field(i).Name()))
				}
			}
			return T("struct", args...)
		}
	}
	if o.Cell != nil {
		return contentOfVal(o.Cell)
	}
	if o.Flat || len(o.Segs) > 0 {
		return o.region(0, -1)
	}
	return o.base()
}

func (o *Obj) dirty() bool {
	if o.Written || o.Clobbered {
		return true
	}
	for _, f := range o.Fields {
		if f.dirty() {
			return true
		}
	}
	for _, f := range o.Elems {
		if f.dirty() {
			return true
		}
	}
	return false
}

func contentOfVal(v val) *Term {
	switch x := v.(type) {
	case tv:
		return x.t
	case ptr:
		switch {
		case x.idx == -1:
			return x.o.content()
		case x.idx >= 0:
			return T("ptr", x.o.content(), num(x.idx))
		default:
			return T("ptr", x.o.content(), x.idxT)
		}
	case slc:
		if x.lo == -2 {
			lo, hi := x.loT, x.hiT
			if lo == nil {
				lo = Leaf("")
			}
			if hi == nil {
				hi = Leaf("")
			}
			return T("sub", x.o.content(), lo, hi)
		}
		return x.o.region(x.lo, x.hi)
	case nilv:
		return Leaf("nil")
	case clo:
		return Leaf("closure:" + x.fn.Name())
	case tup:
		var a []*Term
		for _, e := range x.vs {
			a = append(a, contentOfVal(e))
		}
		return T("tuple", a...)
	case nil:
		return Leaf("UNDEF")
	}
	return Leaf("?")
}

func (o *Obj) field(i int, t types.Type, it *interp) *Obj {
	if o.Fields == nil {
		o.Fields = map[int]*Obj{}
	}
	if f, ok := o.Fields[i]; ok {
		return f
	}
	st := o.typ.Underlying().(*types.Struct)
	f := it.newObj(o.Name+"."+st.Field(i).Name(), st.Field(i).Type())
	if o.base() != Zero {
		f.Leaf = T("fld", o.base(), Leaf(st.Field(i).Name()))
	}
	if o.Clobbered {
		f.Clobbered = true
	}
	f.Param = o.Param
	o.Fields[i] = f
	return f
}

func (o *Obj) elem(i int, t types.Type, it *interp) *Obj {
	if o.Elems == nil {
		o.Elems = map[int]*Obj{}
	}
	if e, ok := o.Elems[i]; ok {
		return e
	}
	e := it.newObj(fmt.Sprintf("%s[%d]", o.Name, i), t)
	if o.base() != Zero {
		e.Leaf = T("at", o.base(), num(i))
	}
	e.Param = o.Param
	o.Elems[i] = e
	return e
}

// ---- running ---------------------------------------------------------------

func (it *interp) bindParams() {
	for i, p := range it.fn.Params {
		leaf := Leaf(fmt.Sprintf("P%d", i))
		switch u := p.Type().Underlying().(type) {
		case *types.Slice:
			o := it.newObj(leaf.Op, p.Type())
			o.Leaf, o.Param = leaf, i
			if n, ok := it.m.Facts[i]; ok {
				o.N = n
			}
			it.params = append(it.params, o)
			it.env[p] = slc{o: o, lo: 0, hi: -1}
		case *types.Pointer:
			o := it.newObj(leaf.Op, u.Elem())
			o.Leaf, o.Param = leaf, i
			it.params = append(it.params, o)
			it.env[p] = ptr{o: o, idx: -1}
		case *types.Basic:
			if u.Kind() == types.UnsafePointer {
				o := it.newObj(leaf.Op, p.Type())
				o.Leaf, o.Param, o.Flat = leaf, i, true
				it.params = append(it.params, o)
				it.env[p] = ptr{o: o, idx: -1}
				continue
			}
			it.params = append(it.params, nil)
			it.env[p] = tv{leaf}
		default:
			it.params = append(it.params, nil)
			it.env[p] = tv{leaf}
		}
	}
	for i, fv := range it.fn.FreeVars {
		leaf := Leaf(fmt.Sprintf("FV%d", i))
		if pt, ok := fv.Type().Underlying().(*types.Pointer); ok {
			o := it.newObj(leaf.Op, pt.Elem())
			o.Leaf = leaf
			it.env[fv] = ptr{o: o, idx: -1}
		} else {
			it.env[fv] = tv{leaf}
		}
	}
}

func (it *interp) get(v ssa.Value) val {
	switch x := v.(type) {
	case *ssa.Const:
		if x.Value == nil {
			return nilv{x.Type()}
		}
		return tv{constTerm(x)}
	case *ssa.Global:
		o, ok := it.globals[x]
		if !ok {
			o = it.newObj("G:"+x.Name(), x.Type().(*types.Pointer).Elem())
			name := x.Name()
			if x.Pkg != nil {
				name = x.Pkg.Pkg.Name() + "." + name
			}
			o.Leaf = Leaf("G:" + name)
			it.globals[x] = o
		}
		return ptr{o: o, idx: -1}
	case *ssa.Function:
		return clo{fn: x}
	case *ssa.Builtin:
		return tv{Leaf("builtin:" + x.Name())}
	}
	if r, ok := it.env[v]; ok {
		return r
	}
	if it.lazy {
		if in, ok := v.(ssa.Instruction); ok {
			switch x := v.(type) {
			case *ssa.Phi:
				it.env[x] = tv{Leaf(phiName(x))}
			case *ssa.Call:
				// a call made before the region: only fresh hash objects are re-created; everything else is opaque
				if f := x.Common().StaticCallee(); f != nil && (f.String() == "crypto/sha512.New" || f.String() == "io.ReadFull" || (ssau.InModule(f) && it.m.Pure[ssau.QName(f)])) {
					saved := it.path.Events
					it.env[x] = it.call(x)
					it.path.Events = saved
				} else {
					it.env[x] = it.resultVal(x, Leaf("outer:"+x.Name()))
				}
			case *ssa.Alloc:
				name := x.Comment
				if name == "" {
					name = x.Name()
				}
				o := it.newObj(name, x.Type().(*types.Pointer).Elem())
				o.Leaf = Leaf("local:" + name)
				it.env[x] = ptr{o: o, idx: -1}
			case *ssa.MakeSlice:
				o := it.newObj("make@"+x.Name(), x.Type())
				o.Leaf = Leaf("local:make@" + x.Name())
				it.env[x] = slc{o: o, lo: 0, hi: -1}
			case *ssa.Extract:
				it.instr(in)
			default:
				saved := it.path.Events
				it.instr(in)
				it.path.Events = saved
			}
			if r, ok := it.env[v]; ok {
				return r
			}
		}
		if fv, ok := v.(*ssa.FreeVar); ok {
			_ = fv
		}
	}
	it.unrec("use of undefined value %s", v.Name())
	return tv{Leaf("UNDEF:" + v.Name())}
}

func (it *interp) term(v ssa.Value) *Term { return contentOfVal(it.get(v)) }

var errRestart = fmt.Errorf("restart with a symbolic loop header")

// phiName names a phi by its source variable and block so that different loops' counters stay distinct.
func phiName(x *ssa.Phi) string {
	name := x.Comment
	if name == "" {
		name = x.Name()
	}
	return fmt.Sprintf("PHI:%s@%d", name, x.Block().Index)
}

// PhiName is the exported form of phiName.
func PhiName(x *ssa.Phi) string { return phiName(x) }

func isLoopHeader(b *ssa.BasicBlock) bool {
	for _, p := range b.Preds {
		if b.Dominates(p) {
			return true
		}
	}
	return false
}

func hasPhiLeaf(t *Term) bool {
	return t.Contains(func(s *Term) bool { return strings.HasPrefix(s.Op, "PHI:") })
}

// normAtom normalises a boolean term into (atom, polarity).
func normAtom(t *Term) (*Term, bool) {
	pol := true
	for {
		switch t.Op {
		case "not":
			t = t.Args[0]
			pol = !pol
			continue
		case "ne":
			t = T("eq", t.Args...)
			pol = !pol
			continue
		case "le": // a <= b  ==  !(a > b)
			t = T("gt", t.Args...)
			pol = !pol
			continue
		case "ge": // a >= b  ==  !(a < b)
			t = T("lt", t.Args...)
			pol = !pol
			continue
		}
		break
	}
	// orient lt/gt with the constant on the right
	if (t.Op == "lt" || t.Op == "gt") && len(t.Args) == 2 && t.Args[0].IsConst() && !t.Args[1].IsConst() {
		op := "gt"
		if t.Op == "gt" {
			op = "lt"
		}
		t = T(op, t.Args[1], t.Args[0])
	}
	return t, pol
}

func (it *interp) run() (taken []bool, pruned bool, err error) {
	defer func() {
		if e := recover(); e != nil {
			err = fmt.Errorf("path engine panic in %s: %v", ssau.QName(it.fn), e)
		}
	}()
	it.bindParams()
	if len(it.fn.Blocks) == 0 {
		return nil, true, fmt.Errorf("%s has no body", ssau.QName(it.fn))
	}
	b := it.fn.Blocks[0]
	if it.start != nil {
		b = it.start
	}
	var prev *ssa.BasicBlock
	steps := 0
	for {
		if it.stopAt != nil && steps > 0 && it.stopAt(b) {
			it.path.Kind = "stop"
			it.path.StopAt = b
			it.path.From = prev
			break
		}
		it.visits[b]++
		limit := 2
		if !it.lazy {
			limit = 1200 // concretely counted loops are unrolled
			if it.m.symbolic[b] {
				limit = 3 // a loop whose exit test depends on data: a few iterations characterise its paths
			}
		}
		if it.visits[b] > limit {
			return it.decs, true, nil
		}
		if it.restart {
			return nil, true, errRestart
		}
		it.curBlk = b
		next, done := it.block(b, prev)
		steps++
		if steps > 400000 {
			return it.decs, true, fmt.Errorf("step limit in %s", ssau.QName(it.fn))
		}
		if done {
			break
		}
		prev, b = b, next
	}
	// finals
	for i, o := range it.params {
		if o != nil && it.objWritten(o) {
			it.path.Finals[fmt.Sprintf("P%d", i)] = o.content()
		}
	}
	for _, h := range it.hashes {
		if len(h.Tr) > 0 {
			it.path.HashOpen = append(it.path.HashOpen, h.Name)
		}
	}
	return it.decs, false, nil
}

func (it *interp) objWritten(o *Obj) bool {
	if o.Written || o.Clobbered {
		return true
	}
	for _, f := range o.Fields {
		if it.objWritten(f) {
			return true
		}
	}
	for _, f := range o.Elems {
		if it.objWritten(f) {
			return true
		}
	}
	return false
}

func (it *interp) decide(key string, t *Term, pos token.Pos, loop bool) bool {
	if !loop {
		if v, ok := it.valu[key]; ok {
			return v
		}
	}
	var d bool
	if it.dpos < len(it.decs) {
		d = it.decs[it.dpos]
	} else {
		d = true
		it.decs = append(it.decs, d)
	}
	it.dpos++
	if !loop {
		it.valu[key] = d
	}
	it.path.Atoms = append(it.path.Atoms, AtomVal{Key: key, T: t, Val: d, Pos: pos, Loop: loop, Block: it.curBlk})
	return d
}

func (it *interp) block(b *ssa.BasicBlock, prev *ssa.BasicBlock) (*ssa.BasicBlock, bool) {
	loopHdr := isLoopHeader(b)
	for _, in := range b.Instrs {
		switch x := in.(type) {
		case *ssa.Phi:
			if loopHdr && (it.lazy || it.m.symbolic[b]) {
				it.env[x] = tv{Leaf(phiName(x))}
				// pointer-like phis in loops are not modelled
				continue
			}
			idx := -1
			for i, p := range b.Preds {
				if p == prev {
					idx = i
				}
			}
			if idx < 0 {
				if it.lazy {
					it.env[x] = tv{Leaf(phiName(x))}
					continue
				}
				it.unrec("phi without predecessor")
				it.env[x] = tv{Leaf("UNDEF")}
				continue
			}
			it.env[x] = it.get(x.Edges[idx])
		case *ssa.If:
			cv := it.get(x.Cond)
			ct := contentOfVal(cv)
			if ct.Op == "#true" {
				return b.Succs[0], false
			}
			if ct.Op == "#false" {
				return b.Succs[1], false
			}
			if loopHdr && !it.lazy && !it.m.symbolic[b] {
				// the exit test of a loop we are unrolling is not a constant: treat this loop symbolically from now on
				it.m.symbolic[b] = true
				it.restart = true
				return b.Succs[1], false
			}
			atom, pol := normAtom(ct)
			loop := hasPhiLeaf(atom) && !it.lazy
			pos := x.Cond.Pos()
			if !pos.IsValid() {
				pos = x.Pos()
			}
			d := it.decide(atom.String(), atom, pos, loop)
			// refine length facts
			it.refine(atom, d)
			if d == pol {
				return b.Succs[0], false
			}
			return b.Succs[1], false
		case *ssa.Jump:
			return b.Succs[0], false
		case *ssa.Return:
			it.path.Kind = "return"
			if it.inlined {
				it.retVals = nil
				for _, r := range x.Results {
					it.retVals = append(it.retVals, it.get(r))
				}
			}
			for _, r := range x.Results {
				it.path.Results = append(it.path.Results, it.term(r))
			}
			it.path.ExitPos = x.Pos()
			return nil, true
		case *ssa.Panic:
			it.path.Kind = "panic"
			it.path.Results = []*Term{it.term(x.X)}
			it.path.ExitPos = x.Pos()
			return nil, true
		default:
			it.instr(in)
		}
	}
	it.unrec("block without terminator")
	return nil, true
}

// refine records len(P)=n facts implied by a decided atom.
func (it *interp) refine(atom *Term, d bool) {
	if atom.Op != "eq" || !d || len(atom.Args) != 2 {
		return
	}
	a, b := atom.Args[0], atom.Args[1]
	if a.IsConst() {
		a, b = b, a
	}
	n, ok := intOf(b)
	if !ok || a.Op != "len" || len(a.Args) != 1 {
		return
	}
	for _, o := range it.params {
		if o != nil && o.Leaf != nil && o.Leaf.String() == a.Args[0].String() && o.N < 0 {
			o.N = n
		}
	}
	if it.lenFact == nil {
		it.lenFact = map[string]int{}
	}
	it.lenFact[a.Args[0].String()] = n
}

func (it *interp) bound(what string, need, have int, pos token.Pos) {
	it.path.Bounds = append(it.path.Bounds, BoundOb{What: what, Need: need, Have: have, Pos: pos})
}

func binName(op token.Token) string {
	switch op {
	case token.ADD:
		return "add"
	case token.SUB:
		return "subtract"
	case token.MUL:
		return "mul"
	case token.QUO:
		return "quo"
	case token.REM:
		return "rem"
	case token.AND:
		return "and"
	case token.OR:
		return "or"
	case token.XOR:
		return "xor"
	case token.SHL:
		return "shl"
	case token.SHR:
		return "shr"
	case token.AND_NOT:
		return "andnot"
	case token.EQL:
		return "eq"
	case token.NEQ:
		return "ne"
	case token.LSS:
		return "lt"
	case token.LEQ:
		return "le"
	case token.GTR:
		return "gt"
	case token.GEQ:
		return "ge"
	}
	return op.String()
}

func (it *interp) instr(in ssa.Instruction) {
	switch x := in.(type) {
	case *ssa.DebugRef:
	case *ssa.Alloc:
		name := x.Comment
		if name == "" {
			name = x.Name()
		}
		o := it.newObj(name, x.Type().(*types.Pointer).Elem())
		it.env[x] = ptr{o: o, idx: -1}
	case *ssa.MakeSlice:
		o := it.newObj("make@"+x.Name(), x.Type())
		if n, ok := intOf(it.term(x.Len)); ok {
			o.N = n
		}
		o.Leaf = nil
		it.env[x] = slc{o: o, lo: 0, hi: -1}
	case *ssa.FieldAddr:
		p, ok := it.get(x.X).(ptr)
		if !ok || p.idx != -1 {
			it.unrec("field address of unsupported base")
			it.env[x] = ptr{o: it.newObj("?", x.Type().(*types.Pointer).Elem()), idx: -1}
			return
		}
		it.env[x] = ptr{o: p.o.field(x.Field, nil, it), idx: -1}
	case *ssa.IndexAddr:
		base := it.get(x.X)
		it.env[x] = it.indexAddr(base, it.term(x.Index), x.Type().(*types.Pointer).Elem())
	case *ssa.Index:
		// index of array value / string
		bt := it.term(x.X)
		it.env[x] = tv{T("at", bt, it.term(x.Index))}
	case *ssa.Field:
		bt := it.term(x.X)
		st := x.X.Type().Underlying().(*types.Struct)
		it.env[x] = tv{T("fld", bt, Leaf(st.Field(x.Field).Name()))}
	case *ssa.UnOp:
		switch x.Op {
		case token.MUL:
			it.env[x] = it.load(it.get(x.X), x.Type())
		case token.NOT:
			it.env[x] = tv{T("not", it.term(x.X))}
		case token.SUB:
			it.env[x] = tv{T("neg", it.term(x.X))}
		case token.XOR:
			it.env[x] = tv{T("compl", it.term(x.X))}
		default:
			it.unrec("unary %s", x.Op)
			it.env[x] = tv{Leaf("?")}
		}
	case *ssa.BinOp:
		a, b := it.get(x.X), it.get(x.Y)
		// pointer comparisons
		if pa, ok := a.(ptr); ok {
			if pb, ok := b.(ptr); ok && (x.Op == token.EQL || x.Op == token.NEQ) {
				it.env[x] = tv{T(binName(x.Op), T("addr", pa.o.nameTerm(), num(pa.idx)), T("addr", pb.o.nameTerm(), num(pb.idx)))}
				return
			}
		}
		// nil comparisons on non-term values
		if _, isNil := b.(nilv); isNil {
			if _, aNil := a.(nilv); aNil && (x.Op == token.EQL || x.Op == token.NEQ) {
				if x.Op == token.EQL {
					it.env[x] = tv{Leaf("#true")}
				} else {
					it.env[x] = tv{Leaf("#false")}
				}
				return
			}
			switch av := a.(type) {
			case tv:
				it.env[x] = tv{T(binName(x.Op), av.t, Leaf("nil"))}
			default:
				it.env[x] = tv{T(binName(x.Op), contentOfVal(a), Leaf("nil"))}
			}
			return
		}
		ta, tb := contentOfVal(a), contentOfVal(b)
		if r := foldCmp(x.Op, ta, tb); r != nil {
			it.env[x] = tv{r}
			return
		}
		it.env[x] = tv{T(binName(x.Op), ta, tb)}
	case *ssa.Store:
		a, v := it.get(x.Addr), it.get(x.Val)
		it.path.Events = append(it.path.Events, Event{Callee: "store", Args: []*Term{contentOfVal(v)}, Addrs: []*Term{addrOfVal(a)}, Pos: x.Pos(), Block: it.curBlk})
		it.store(a, v, x)
	case *ssa.Slice:
		it.env[x] = it.slice(x)
	case *ssa.Convert:
		v := it.get(x.X)
		from, to := x.X.Type().Underlying(), x.Type().Underlying()
		if _, ok := to.(*types.Slice); ok {
			if b, ok := from.(*types.Basic); ok && b.Info()&types.IsString != 0 {
				// []byte(string): a fresh object whose content is the string
				o := it.newObj("bytes@"+x.Name(), x.Type())
				o.Leaf = T("bytes", contentOfVal(v))
				if c, ok := x.X.(*ssa.Const); ok && c.Value != nil {
					o.N = len(constant.StringVal(c.Value))
				}
				it.env[x] = slc{o: o, lo: 0, hi: -1}
				return
			}
		}
		if _, ok := to.(*types.Basic); ok {
			if _, ok := from.(*types.Basic); ok {
				fb, tb := from.(*types.Basic), to.(*types.Basic)
				if fb.Kind() == tb.Kind() {
					it.env[x] = v
					return
				}
				it.env[x] = tv{T("conv:"+tb.Name(), contentOfVal(v))}
				return
			}
		}
		if _, ok := to.(*types.Pointer); ok {
			it.env[x] = v // unsafe.Pointer round trips keep provenance
			return
		}
		it.env[x] = tv{T("conv", contentOfVal(v))}
	case *ssa.ChangeType, *ssa.ChangeInterface, *ssa.MakeInterface:
		ops := in.Operands(nil)
		v := it.get(*ops[0])
		if mi, ok := in.(*ssa.MakeInterface); ok {
			// remember the dynamic type of a pointer boxed into an interface (decides later type assertions and invokes)
			if p, ok := v.(ptr); ok && p.idx == -1 {
				if it.dyn == nil {
					it.dyn = map[*Obj]types.Type{}
				}
				it.dyn[p.o] = mi.X.Type()
			}
		}
		it.env[in.(ssa.Value)] = v
	case *ssa.SliceToArrayPointer:
		s, ok := it.get(x.X).(slc)
		if ok && s.lo == 0 {
			it.env[x] = ptr{o: s.o, idx: -1}
		} else {
			it.unrec("slice to array pointer of offset slice")
			it.env[x] = tv{Leaf("?")}
		}
	case *ssa.TypeAssert:
		src := it.term(x.X)
		// module packages by name, foreign packages by path: crypto/ed25519.PrivateKey must not collide with the module's own type
		modRoot := ""
		if it.fn.Pkg != nil {
			modRoot = it.fn.Pkg.Pkg.Path()
			for _, sep := range []string{"/internal/", "/extra/"} {
				if i := strings.Index(modRoot, sep); i >= 0 {
					modRoot = modRoot[:i]
				}
			}
		}
		tn := types.TypeString(x.AssertedType, func(p *types.Package) string {
			if modRoot != "" && (p.Path() == modRoot || strings.HasPrefix(p.Path(), modRoot+"/")) {
				return p.Name()
			}
			return p.Path()
		})
		var value val
		if pt, ok := x.AssertedType.Underlying().(*types.Pointer); ok {
			o := it.newObj("assert", pt.Elem())
			o.Leaf = T("as:"+tn, src)
			value = ptr{o: o, idx: -1}
		} else if _, ok := x.AssertedType.Underlying().(*types.Slice); ok {
			o := it.newObj("assert", x.AssertedType)
			o.Leaf = T("as:"+tn, src)
			value = slc{o: o, lo: 0, hi: -1}
		} else {
			value = tv{T("as:"+tn, src)}
		}
		if p, ok := it.get(x.X).(ptr); ok && it.dyn != nil && it.dyn[p.o] != nil && !types.IsInterface(x.AssertedType) {
			same := types.Identical(it.dyn[p.o], x.AssertedType)
			if x.CommaOk {
				okT := Leaf("#false")
				if same {
					okT = Leaf("#true")
					value = p
				}
				it.env[x] = tup{[]val{value, tv{okT}}}
				return
			}
			if same {
				it.env[x] = p
				return
			}
		}
		if x.CommaOk {
			it.env[x] = tup{[]val{value, tv{T("typeis:"+tn, src)}}}
		} else {
			it.path.Events = append(it.path.Events, Event{Callee: "typeassert!", Args: []*Term{src}, Pos: x.Pos()})
			it.env[x] = value
		}
	case *ssa.Extract:
		t := it.get(x.Tuple)
		if tp, ok := t.(tup); ok && x.Index < len(tp.vs) {
			it.env[x] = tp.vs[x.Index]
		} else {
			it.env[x] = tv{T("extract", contentOfVal(t), num(x.Index))}
		}
	case *ssa.MakeClosure:
		c := clo{fn: x.Fn.(*ssa.Function)}
		for _, b := range x.Bindings {
			c.binds = append(c.binds, it.get(b))
		}
		it.env[x] = c
	case *ssa.Call:
		it.env[x] = it.call(x)
	case *ssa.Defer, *ssa.Go, *ssa.RunDefers:
		it.unrec("defer/go not modelled")
	case *ssa.Range, *ssa.Next, *ssa.Lookup, *ssa.MapUpdate, *ssa.MakeMap, *ssa.MakeChan, *ssa.Send, *ssa.Select:
		it.unrec("unsupported instruction %T", in)
		if v, ok := in.(ssa.Value); ok {
			it.env[v] = tv{Leaf("?")}
		}
	default:
		it.unrec("unsupported instruction %T", in)
		if v, ok := in.(ssa.Value); ok {
			it.env[v] = tv{Leaf("?")}
		}
	}
}

// addrOfVal describes where a pointer/slice value points: addr(object, index) or slice(object, lo, hi).
func addrOfVal(v val) *Term {
	switch x := v.(type) {
	case ptr:
		switch {
		case x.idx == -1:
			return T("addr", x.o.nameTerm())
		case x.idx >= 0:
			return T("addr", x.o.nameTerm(), num(x.idx))
		default:
			return T("addr", x.o.nameTerm(), x.idxT)
		}
	case slc:
		if x.lo == -2 {
			lo, hi := x.loT, x.hiT
			if lo == nil {
				lo = num(0)
			}
			if hi == nil {
				hi = Leaf("")
			}
			return T("slice", x.o.nameTerm(), lo, hi)
		}
		hi := Leaf("")
		if x.hi >= 0 {
			hi = num(x.hi)
		}
		return T("slice", x.o.nameTerm(), num(x.lo), hi)
	}
	return nil
}

func (o *Obj) nameTerm() *Term {
	if o.Leaf != nil {
		return o.Leaf
	}
	return Leaf("local:" + o.Name)
}

func foldCmp(op token.Token, a, b *Term) *Term {
	x, ok1 := intOf(a)
	y, ok2 := intOf(b)
	if !ok1 || !ok2 {
		return nil
	}
	var r bool
	switch op {
	case token.EQL:
		r = x == y
	case token.NEQ:
		r = x != y
	case token.LSS:
		r = x < y
	case token.LEQ:
		r = x <= y
	case token.GTR:
		r = x > y
	case token.GEQ:
		r = x >= y
	case token.ADD:
		return num(x + y)
	case token.SUB:
		return num(x - y)
	case token.MUL:
		return num(x * y)
	default:
		return nil
	}
	if r {
		return Leaf("#true")
	}
	return Leaf("#false")
}

func (it *interp) indexAddr(base val, idx *Term, elemT types.Type) val {
	i, isConst := intOf(idx)
	switch b := base.(type) {
	case ptr:
		if b.idx != -1 {
			it.unrec("index of element pointer")
			return ptr{o: it.newObj("?", elemT), idx: -1}
		}
		if !isConst {
			if b.o.Flat {
				return ptr{o: b.o, idx: -2, idxT: idx}
			}
			return ptr{o: b.o, idx: -2, idxT: idx}
		}
		if b.o.Flat {
			return ptr{o: b.o, idx: i}
		}
		return ptr{o: b.o.elem(i, elemT, it), idx: -1}
	case slc:
		if !isConst || b.lo == -2 {
			return ptr{o: b.o, idx: -2, idxT: T("add", idx, b.loTerm())}
		}
		if b.o.Param >= 0 || b.o.N < 0 {
			have := b.o.N
			if b.hi >= 0 {
				have = b.hi
			}
			it.bound("index "+b.o.nameTerm().String(), b.lo+i+1, have, token.NoPos)
		}
		if b.o.Flat {
			return ptr{o: b.o, idx: b.lo + i}
		}
		return ptr{o: b.o.elem(b.lo+i, elemT, it), idx: -1}
	}
	it.unrec("index of unsupported base %T", base)
	return ptr{o: it.newObj("?", elemT), idx: -1}
}

func (s slc) loTerm() *Term {
	if s.lo == -2 {
		return s.loT
	}
	return num(s.lo)
}

func pointerLike(t types.Type) bool {
	switch t.Underlying().(type) {
	case *types.Pointer, *types.Slice, *types.Interface, *types.Signature, *types.Map, *types.Chan:
		return true
	}
	return false
}

func (it *interp) load(a val, t types.Type) val {
	p, ok := a.(ptr)
	if !ok {
		it.unrec("load through non-pointer")
		return tv{Leaf("?")}
	}
	switch {
	case p.idx == -1:
		if p.o.Cell != nil {
			return p.o.Cell
		}
		if pointerLike(t) && p.o.Leaf == nil && !p.o.Written {
			return nilv{t}
		}
		if _, ok := t.Underlying().(*types.Slice); ok && p.o.Leaf != nil {
			// slice stored in a parameter/global structure: model as an object
			o := it.newObj(p.o.Name+".*", t)
			o.Leaf = T("deref", p.o.Leaf)
			return slc{o: o, lo: 0, hi: -1}
		}
		return tv{p.o.content()}
	case p.idx >= 0:
		if p.o.Clobbered {
			return tv{Leaf("TOP")}
		}
		r := p.o.region(p.idx, p.idx+1)
		if r.Op == "sub" {
			r = T("at", r.Args[0], r.Args[1])
		}
		return tv{r}
	default:
		return tv{T("at", p.o.content(), p.idxT)}
	}
}

func (it *interp) store(a, v val, in *ssa.Store) {
	p, ok := a.(ptr)
	if !ok {
		it.unrec("store through non-pointer")
		return
	}
	switch {
	case p.idx == -1:
		p.o.Written = true
		switch vv := v.(type) {
		case tv:
			p.o.Whole, p.o.Segs, p.o.Fields, p.o.Elems, p.o.Cell = vv.t, nil, nil, nil, nil
		default:
			p.o.Cell = v
		}
	case p.idx >= 0:
		p.o.writeRegion(p.idx, p.idx+1, contentOfVal(v), true)
	default:
		// unknown element: the object's content is no longer known
		p.o.Clobbered = true
		p.o.Written = true
	}
}

func (it *interp) slice(x *ssa.Slice) val {
	base := it.get(x.X)
	var lo, hi *Term
	if x.Low != nil {
		lo = it.term(x.Low)
	}
	if x.High != nil {
		hi = it.term(x.High)
	}
	var o *Obj
	off := 0
	curHi := -1
	switch b := base.(type) {
	case ptr:
		if b.idx != -1 {
			it.unrec("slice of element pointer")
			return tv{Leaf("?")}
		}
		o = b.o
	case slc:
		if b.lo == -2 {
			nlo := b.loT
			if lo != nil {
				nlo = T("add", b.loT, lo)
			}
			return slc{o: b.o, lo: -2, loT: nlo, hiT: hi}
		}
		o, off, curHi = b.o, b.lo, b.hi
	case tv:
		// slicing a string / opaque slice value
		if hi == nil && (lo == nil || lo.Op == "#0") {
			return b
		}
		{
			need := -1
			if hi != nil {
				if n, ok := intOf(hi); ok {
					need = n
				}
			} else if lo != nil {
				if n, ok := intOf(lo); ok {
					need = n
				}
			}
			if need >= 0 {
				have := -1
				if n, ok := it.lenFact[b.t.String()]; ok {
					have = n
				} else if n, ok := it.m.TermLen[b.t.String()]; ok {
					have = n
				}
				it.bound("slice "+b.t.String(), need, have, x.Pos())
			}
		}
		l, h := lo, hi
		if l == nil {
			l = num(0)
		}
		if h == nil {
			h = Leaf("")
		}
		return tv{T("sub", b.t, l, h)}
	case nilv:
		return b
	default:
		it.unrec("slice of unsupported base %T", base)
		return tv{Leaf("?")}
	}
	l, lok := 0, true
	if lo != nil {
		l, lok = intOf(lo)
	}
	h, hok := -1, true
	if hi != nil {
		h, hok = intOf(hi)
	}
	if !lok || !hok {
		var lt *Term
		if lo != nil {
			lt = T("add", lo, num(off))
			if off == 0 {
				lt = lo
			}
		} else {
			lt = num(off)
		}
		var ht *Term
		if hi != nil {
			ht = hi
			if off != 0 {
				ht = T("add", hi, num(off))
			}
		}
		return slc{o: o, lo: -2, loT: lt, hiT: ht}
	}
	nlo := off + l
	nhi := curHi
	if h >= 0 {
		nhi = off + h
	}
	if o.Param >= 0 || o.N < 0 {
		need := nlo
		if h >= 0 {
			need = off + h
		}
		have := o.N
		if curHi >= 0 {
			have = curHi
		}
		if need > 0 {
			it.bound("slice "+o.nameTerm().String(), need, have, x.Pos())
		}
	}
	return slc{o: o, lo: nlo, hi: nhi}
}

func (s slc) length() (int, bool) {
	if s.lo == -2 {
		return 0, false
	}
	if s.hi >= 0 {
		return s.hi - s.lo, true
	}
	if s.o.N >= 0 {
		return s.o.N - s.lo, true
	}
	return 0, false
}
