// Package ssau has small helpers over go/ssa shared by all engines.
package ssau

import (
	"fmt"
	"go/token"
	"go/types"
	"path/filepath"
	"sort"
	"strings"

	"golang.org/x/tools/go/ssa"

	"verif/internal/load"
)

// Pos renders a source position relative to the repository root.
func Pos(p *load.Program, pos token.Pos) string {
	if !pos.IsValid() {
		return "?"
	}
	ps := p.Prog.Fset.Position(pos)
	r, err := filepath.Rel(p.Repo, ps.Filename)
	if err != nil {
		r = ps.Filename
	}
	return fmt.Sprintf("%s:%d", r, ps.Line)
}

// InstrPos finds the best position for an instruction.
func InstrPos(p *load.Program, in ssa.Instruction) string {
	if in.Pos().IsValid() {
		return Pos(p, in.Pos())
	}
	// look at operands / neighbours in the block
	if b := in.Block(); b != nil {
		for _, j := range b.Instrs {
			if j.Pos().IsValid() {
				return Pos(p, j.Pos()) + "(near)"
			}
		}
		if in.Parent() != nil {
			return Pos(p, in.Parent().Pos()) + "(func)"
		}
	}
	return "?"
}

// Func returns the package-level function pkgSuffix.name ("" = root package).
func Func(p *load.Program, pkgSuffix, name string) *ssa.Function {
	sp := p.SSAPkg(pkgSuffix)
	if sp == nil {
		return nil
	}
	if f := sp.Func(name); f != nil {
		return f
	}
	if a := Actual(p, pkgSuffix, name); a != name {
		return sp.Func(a)
	}
	return nil
}

// Method returns the method (value or pointer receiver) typeName.method of a module package.
func Method(p *load.Program, pkgSuffix, typeName, method string) *ssa.Function {
	sp := p.SSAPkg(pkgSuffix)
	if sp == nil {
		return nil
	}
	obj := sp.Pkg.Scope().Lookup(typeName)
	if obj == nil {
		return nil
	}
	for _, t := range []types.Type{obj.Type(), types.NewPointer(obj.Type())} {
		ms := p.Prog.MethodSets.MethodSet(t)
		for i := 0; i < ms.Len(); i++ {
			if ms.At(i).Obj().Name() == method {
				fn := p.Prog.MethodValue(ms.At(i))
				if fn != nil && fn.Synthetic == "" {
					return fn
				}
				if fn != nil {
					// wrapper: find the declared one
					if f, ok := ms.At(i).Obj().(*types.Func); ok {
						if d := p.Prog.FuncValue(f); d != nil {
							return d
						}
					}
				}
			}
		}
	}
	return nil
}

// InModule reports whether fn belongs to the repository module.
func InModule(fn *ssa.Function) bool {
	if fn == nil {
		return false
	}
	for fn.Parent() != nil {
		fn = fn.Parent()
	}
	if fn.Pkg == nil {
		return false
	}
	return strings.HasPrefix(fn.Pkg.Pkg.Path(), load.ModPath)
}

// PkgSuffix returns the module-relative package path of fn ("" for root), or "?" if outside.
func PkgSuffix(fn *ssa.Function) string {
	for fn.Parent() != nil {
		fn = fn.Parent()
	}
	if fn.Pkg == nil {
		return "?"
	}
	pp := fn.Pkg.Pkg.Path()
	if pp == load.ModPath {
		return ""
	}
	if strings.HasPrefix(pp, load.ModPath+"/") {
		return strings.TrimPrefix(pp, load.ModPath+"/")
	}
	return "?"
}

// QName is a stable qualified name for a function: pkgsuffix.Name (closures: parent$n).
func QName(fn *ssa.Function) string {
	if fn == nil {
		return "<nil>"
	}
	if InModule(fn) {
		s := PkgSuffix(fn)
		n := CanonName(fn)
		if fn.Signature.Recv() != nil {
			n = recvName(fn.Signature.Recv().Type()) + "." + n
		}
		if fn.Parent() != nil {
			n = QName(fn.Parent()) + "$" + strings.TrimPrefix(fn.Name(), fn.Parent().Name()+"$")
			return n
		}
		if s == "" {
			return n
		}
		return s + "." + n
	}
	return fn.String()
}

func recvName(t types.Type) string {
	if p, ok := t.(*types.Pointer); ok {
		t = p.Elem()
	}
	if n, ok := t.(*types.Named); ok {
		return n.Obj().Name()
	}
	return t.String()
}

// ResolveCallee resolves the callee of a call: static callee, or a closure
// reached through single-store cells / free-variable bindings. Returns nil for
// interface (invoke) calls and unresolvable dynamic calls.
func ResolveCallee(c *ssa.CallCommon) *ssa.Function {
	if c.IsInvoke() {
		return nil
	}
	if f := c.StaticCallee(); f != nil {
		return f
	}
	return closureOf(c.Value, 0)
}

func closureOf(v ssa.Value, depth int) *ssa.Function {
	if depth > 8 {
		return nil
	}
	switch x := v.(type) {
	case *ssa.MakeClosure:
		return x.Fn.(*ssa.Function)
	case *ssa.Function:
		return x
	case *ssa.UnOp:
		if x.Op == token.MUL {
			// load from a cell: find the unique store
			return closureOfCell(x.X, depth+1)
		}
	case *ssa.ChangeType:
		return closureOf(x.X, depth+1)
	case *ssa.Phi:
		var f *ssa.Function
		for _, e := range x.Edges {
			g := closureOf(e, depth+1)
			if g == nil || (f != nil && g != f) {
				return nil
			}
			f = g
		}
		return f
	}
	return nil
}

func closureOfCell(addr ssa.Value, depth int) *ssa.Function {
	switch a := addr.(type) {
	case *ssa.Alloc:
		var stored ssa.Value
		n := 0
		for _, r := range *a.Referrers() {
			if st, ok := r.(*ssa.Store); ok && st.Addr == a {
				stored = st.Val
				n++
			}
		}
		// also stores done inside closures that captured the cell are not considered: require exactly one store
		if n == 1 && !cellStoredInClosures(a) {
			return closureOf(stored, depth+1)
		}
	case *ssa.FreeVar:
		// find binding in the parent's MakeClosure
		fn := a.Parent()
		idx := -1
		for i, fv := range fn.FreeVars {
			if fv == a {
				idx = i
			}
		}
		par := fn.Parent()
		if par == nil || idx < 0 {
			return nil
		}
		var res *ssa.Function
		cnt := 0
		for _, b := range par.Blocks {
			for _, in := range b.Instrs {
				if mc, ok := in.(*ssa.MakeClosure); ok && mc.Fn == fn {
					cnt++
					res = closureOfCell(mc.Bindings[idx], depth+1)
				}
			}
		}
		if cnt == 1 {
			return res
		}
	}
	return nil
}

// cellStoredInClosures reports whether any closure that captured cell a stores to it.
func cellStoredInClosures(a *ssa.Alloc) bool {
	for _, r := range *a.Referrers() {
		mc, ok := r.(*ssa.MakeClosure)
		if !ok {
			continue
		}
		fn := mc.Fn.(*ssa.Function)
		for i, b := range mc.Bindings {
			if b != a {
				continue
			}
			fv := fn.FreeVars[i]
			if freeVarStored(fn, fv, 0) {
				return true
			}
		}
	}
	return false
}

func freeVarStored(fn *ssa.Function, fv *ssa.FreeVar, depth int) bool {
	if depth > 6 {
		return true
	}
	for _, r := range *fv.Referrers() {
		switch x := r.(type) {
		case *ssa.Store:
			if x.Addr == fv {
				return true
			}
		case *ssa.MakeClosure:
			g := x.Fn.(*ssa.Function)
			for i, b := range x.Bindings {
				if b == fv && freeVarStored(g, g.FreeVars[i], depth+1) {
					return true
				}
			}
		}
	}
	return false
}

// Callees lists the resolved module/extern callees of fn (including closures it creates).
func Callees(fn *ssa.Function) (out []*ssa.Function, unresolved []ssa.Instruction) {
	seen := map[*ssa.Function]bool{}
	for _, b := range fn.Blocks {
		for _, in := range b.Instrs {
			switch x := in.(type) {
			case ssa.CallInstruction:
				c := x.Common()
				if c.IsInvoke() {
					continue
				}
				if _, ok := c.Value.(*ssa.Builtin); ok {
					continue
				}
				f := ResolveCallee(c)
				if f == nil {
					unresolved = append(unresolved, in)
					continue
				}
				if !seen[f] {
					seen[f] = true
					out = append(out, f)
				}
			case *ssa.MakeClosure:
				f := x.Fn.(*ssa.Function)
				if !seen[f] {
					seen[f] = true
					out = append(out, f)
				}
			}
		}
	}
	return
}

// Reachable returns all module functions reachable from the roots through
// resolved static/closure calls, plus the external callees seen and the
// unresolved call instructions.
func Reachable(roots ...*ssa.Function) (mod []*ssa.Function, ext []*ssa.Function, unresolved []ssa.Instruction) {
	seen := map[*ssa.Function]bool{}
	var work []*ssa.Function
	for _, r := range roots {
		if r != nil && !seen[r] {
			seen[r] = true
			work = append(work, r)
		}
	}
	extSeen := map[*ssa.Function]bool{}
	for len(work) > 0 {
		f := work[len(work)-1]
		work = work[:len(work)-1]
		if !InModule(f) {
			if !extSeen[f] {
				extSeen[f] = true
				ext = append(ext, f)
			}
			continue
		}
		mod = append(mod, f)
		cs, un := Callees(f)
		unresolved = append(unresolved, un...)
		for _, c := range cs {
			if !seen[c] {
				seen[c] = true
				work = append(work, c)
			}
		}
	}
	sort.Slice(mod, func(i, j int) bool { return QName(mod[i]) < QName(mod[j]) })
	sort.Slice(ext, func(i, j int) bool { return ext[i].String() < ext[j].String() })
	return
}

// CallsTo reports whether fn directly calls a function with the given package path suffix and name.
func CallsTo(fn *ssa.Function, pkgSuffix, name string) bool {
	cs, _ := Callees(fn)
	for _, c := range cs {
		if InModule(c) && PkgSuffix(c) == pkgSuffix && c.Name() == name && c.Parent() == nil {
			return true
		}
	}
	return false
}

// IsCallTo reports whether the call is a static call to module function pkgSuffix.name.
func IsCallTo(c *ssa.CallCommon, pkgSuffix, name string) bool {
	f := c.StaticCallee()
	return f != nil && InModule(f) && f.Parent() == nil && PkgSuffix(f) == pkgSuffix && f.Name() == name && f.Signature.Recv() == nil
}

// ExternName returns "pkgpath.Name" or "(recv).Name" for a non-module static callee; "" if none.
func ExternName(c *ssa.CallCommon) string {
	if c.IsInvoke() {
		return "invoke:" + c.Value.Type().String() + "." + c.Method.Name()
	}
	if b, ok := c.Value.(*ssa.Builtin); ok {
		return "builtin:" + b.Name()
	}
	f := c.StaticCallee()
	if f == nil || InModule(f) {
		return ""
	}
	return f.String()
}

// AllFuncs returns every function (incl. closures, methods) declared in module packages of p, sorted.
func AllFuncs(p *load.Program) []*ssa.Function {
	var out []*ssa.Function
	var addAnon func(f *ssa.Function)
	addAnon = func(f *ssa.Function) {
		out = append(out, f)
		for _, a := range f.AnonFuncs {
			addAnon(a)
		}
	}
	for _, sp := range p.SSA {
		for _, m := range sp.Members {
			switch x := m.(type) {
			case *ssa.Function:
				addAnon(x)
			case *ssa.Type:
				for _, t := range []types.Type{x.Type(), types.NewPointer(x.Type())} {
					ms := p.Prog.MethodSets.MethodSet(t)
					for i := 0; i < ms.Len(); i++ {
						if f, ok := ms.At(i).Obj().(*types.Func); ok {
							if d := p.Prog.FuncValue(f); d != nil && d.Pkg == sp {
								dup := false
								for _, o := range out {
									if o == d {
										dup = true
									}
								}
								if !dup {
									addAnon(d)
								}
							}
						}
					}
				}
			}
		}
	}
	sort.Slice(out, func(i, j int) bool { return QName(out[i]) < QName(out[j]) })
	return out
}

// Global returns the package-level variable pkgSuffix.name.
func Global(p *load.Program, pkgSuffix, name string) *ssa.Global {
	sp := p.SSAPkg(pkgSuffix)
	if sp == nil {
		return nil
	}
	return sp.Var(name)
}
