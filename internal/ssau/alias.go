package ssau

import (
	"go/token"
	"go/types"
	"strings"
	"sync"

	"golang.org/x/tools/go/ssa"

	"verif/internal/load"
)

// Private helpers of internal/ge25519 that rules anchor on, with their parameter types. The name is only the first way
// to find them: when a helper has been renamed, the one function of the package that has the helper's parameter types and
// bears no other anchored name takes its place (renaming a private function is not a behavioural change). When that is
// not unique the anchor stays unresolved and the rules that need it report it.
var geHelpers = map[string]string{
	"geSub":                     "*ge25519p1p1,*Ge25519,*ge25519pniels",
	"p1p1ToPartial":             "*Ge25519,*ge25519p1p1",
	"p1p1ToFull":                "*Ge25519,*ge25519p1p1",
	"fullToPniels":              "*ge25519pniels,*Ge25519",
	"addP1p1":                   "*ge25519p1p1,*Ge25519,*Ge25519",
	"doubleP1p1":                "*ge25519p1p1,*Ge25519",
	"nielsAdd2P1p1Vartime":      "*ge25519p1p1,*Ge25519,*ge25519niels,uint8",
	"pnielsAddP1P1Vartime":      "*ge25519p1p1,*Ge25519,*ge25519pniels,uint8",
	"nielsAdd2":                 "*Ge25519,*ge25519niels",
	"pnielsAdd":                 "*ge25519pniels,*Ge25519,*ge25519pniels",
	"moveConditionalBytes":      "*[96]byte,*[96]byte,uint64",
	"doublePartial":             "*Ge25519,*Ge25519",
	"windowbEqual":              "uint32,uint32->(uint32)",
	"scalarmultBaseChooseNiels": "*ge25519niels,*[256][96]byte,int,int8",
}

type aliasSet struct{ c2a, a2c map[string]string }

var aliasCache sync.Map // *ssa.Package -> *aliasSet

func paramSig(f *ssa.Function) string {
	sig := f.Signature
	if sig.Recv() != nil {
		return "method"
	}
	var parts []string
	for i := 0; i < sig.Params().Len(); i++ {
		parts = append(parts, types.TypeString(sig.Params().At(i).Type(), func(*types.Package) string { return "" }))
	}
	s := strings.Join(parts, ",")
	if sig.Results().Len() > 0 {
		s += "->" + types.TypeString(sig.Results(), func(*types.Package) string { return "" })
	}
	return s
}

func aliasesOf(sp *ssa.Package) *aliasSet {
	if sp == nil || sp.Pkg == nil || !strings.HasSuffix(sp.Pkg.Path(), "/internal/ge25519") {
		return nil
	}
	if v, ok := aliasCache.Load(sp); ok {
		return v.(*aliasSet)
	}
	as := &aliasSet{c2a: map[string]string{}, a2c: map[string]string{}}
	missing := map[string][]string{} // signature -> missing anchored names
	for name, sig := range geHelpers {
		if sp.Func(name) == nil {
			missing[sig] = append(missing[sig], name)
		}
	}
	if len(missing) > 0 {
		cands := map[string][]string{}
		for name, m := range sp.Members {
			f, ok := m.(*ssa.Function)
			if !ok || f.Synthetic != "" || f.Blocks == nil || name == "init" || token.IsExported(name) {
				continue
			}
			if _, anchored := geHelpers[name]; anchored {
				continue
			}
			cands[paramSig(f)] = append(cands[paramSig(f)], name)
		}
		for sig, names := range missing {
			if len(names) == 1 && len(cands[sig]) == 1 {
				as.c2a[names[0]] = cands[sig][0]
				as.a2c[cands[sig][0]] = names[0]
			}
		}
	}
	aliasCache.Store(sp, as)
	return as
}

// CanonName returns the anchored name a function answers to: its own name unless it stands in for a renamed private
// helper (see geHelpers).
func CanonName(f *ssa.Function) string {
	if f == nil {
		return ""
	}
	if f.Pkg != nil && f.Parent() == nil && f.Signature.Recv() == nil {
		if as := aliasesOf(f.Pkg); as != nil {
			if c, ok := as.a2c[f.Name()]; ok {
				return c
			}
		}
	}
	return f.Name()
}

// Actual returns the present name of an anchored private helper of pkgSuffix (the name itself when it was not renamed).
func Actual(p *load.Program, pkgSuffix, name string) string {
	if as := aliasesOf(p.SSAPkg(pkgSuffix)); as != nil {
		if a, ok := as.c2a[name]; ok {
			return a
		}
	}
	return name
}
